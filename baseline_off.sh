#!/bin/sh
# Runs the repository's test suite with the verif build tag OFF and checks that
# every test of /root/.vp/BASELINE.json's stable_pass list passes.
export GOFLAGS=-mod=mod GOPROXY=off GOSUMDB=off GOTOOLCHAIN=local
cd /repo || exit 2
go test -json -vet=off -count=1 -timeout 25m ./... > /tmp/baseline_off.$$.json 2>/dev/null
python3 - /tmp/baseline_off.$$.json <<'PY'
import json,sys
passed=set()
for line in open(sys.argv[1]):
    try: e=json.loads(line)
    except Exception: continue
    if e.get("Action")=="pass" and e.get("Test"):
        passed.add(e["Package"]+"::"+e["Test"])
want=set(json.load(open("/root/.vp/BASELINE.json"))["stable_pass"])
missing=sorted(want-passed)
print("baseline: %d/%d stable tests pass" % (len(want)-len(missing), len(want)))
for m in missing: print("MISSING", m)
sys.exit(1 if missing else 0)
PY
rc=$?
rm -f /tmp/baseline_off.$$.json
exit $rc
