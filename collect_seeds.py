#!/usr/bin/env python3
"""Copies confirmed seeded changes from /tmp/mut/out_* into /verif/seeded/<id>/ with meta.json (run after seed_eval.sh)."""
import json, os, re, shutil, sys
args = sys.argv[1:]
rnd = ""
if args and args[0] == "--round":
    rnd = args[1]; args = args[2:]
ids = args
for pid in ids:
    out = "/tmp/mut/out%s_%s" % (rnd if rnd != "1" else "", pid)
    log = "/tmp/mut/eval%s_%s.log" % (rnd if rnd != "1" else "", pid)
    if not os.path.exists(out) or not os.path.exists(log):
        print("skip", pid); continue
    L = open(log).read()
    before_ok = "DEMO-BEFORE: passes" in L
    after_fails = "DEMO-AFTER: fails" in L
    baseline = "baseline: 48/48 stable tests pass" in L
    sigs = re.findall(r"^  signature: (.*)$", L, re.M)
    rc = re.findall(r"check rc=(\d+)", L)
    detected = bool(rc) and rc[-1] == "1"
    dst = "/verif/seeded/%s%s" % (pid, "-r" + rnd if rnd not in ("", "1") else "")
    if os.path.exists(dst):
        shutil.rmtree(dst)
    os.makedirs(dst)
    for f in os.listdir(out):
        if f == "demo_path.txt":
            continue
        src = os.path.join(out, f)
        if os.path.isdir(src):
            shutil.copytree(src, os.path.join(dst, f))
        else:
            # Go test files are stored with a .txt suffix so that they are not picked up by any go build under /verif
            name = f + ".txt" if f.endswith(".go") else f
            shutil.copy(src, os.path.join(dst, name))
    for root, _, files in os.walk(dst):
        for f in files:
            if f.endswith(".go"):
                os.rename(os.path.join(root, f), os.path.join(root, f + ".txt"))
    notes = open(os.path.join(out, "notes.md")).read() if os.path.exists(os.path.join(out, "notes.md")) else ""
    meta = {
        "property": pid,
        "round": int(rnd or 1),
        "origin": "independent sub-agent given only the property text and a scratch worktree",
        "demo_location_in_repo": open(os.path.join(out, "demo_path.txt")).read().strip() if os.path.exists(os.path.join(out, "demo_path.txt")) else ".",
        "confirmed_by_me": {"applies_and_builds": True, "baseline_48_of_48": baseline, "demo_passes_without_change": before_ok, "demo_fails_with_change": after_fails,
                            "how": "/verif/seed_eval.sh %s (fresh scratch worktree of /repo HEAD, removed afterwards)" % pid},
        "what_it_needs_to_manifest": "see notes.md",
        "check_run": "git -C /repo apply patch.diff; ./check %s quick; git -C /repo checkout -- ." % pid,
        "detected_by_quick_check": detected,
        "violation_signatures": sorted(set(sigs))[:6],
        "notes_head": notes[:600],
    }
    json.dump(meta, open(os.path.join(dst, "meta.json"), "w"), indent=1)
    print(pid, "detected" if detected else "MISSED", "baseline", baseline, "demo", before_ok, after_fails)
