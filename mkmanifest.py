#!/usr/bin/env python3
"""Regenerates MANIFEST.json from props.py (claimed checks) and na.py (not-applicable reasons)."""
import json, sys, os
ROOT = os.path.dirname(os.path.abspath(__file__))
sys.path.insert(0, ROOT)
from props import PROPS
try:
    from na import NOT_APPLICABLE
except ImportError:
    NOT_APPLICABLE = {}
props = [json.loads(l) for l in open(os.path.join(ROOT, "properties.jsonl"))]
m = {
    "version": 1,
    "setup_cmd": "cd /verif && ./check build",
    "hooks": {"guard": "verif", "enable": "no hooks are compiled into /repo; harnesses reach unexported code through go/packages overlays (symgo -overlay, go test -overlay) where needed",
              "baseline_off_cmd": "/verif/baseline_off.sh", "source_commits": [], "add_only": True},
    "engines": [{"name": "symgo", "path": "/verif/engine", "serves_properties": sorted(PROPS),
                 "kind_free_text": "bounded symbolic execution of go/ssa (fork of x/tools go/ssa/interp with symbolic scalars/strings, lazy inputs, prefix-replay DFS, thread scheduler) + SMT-LIB2 over z3 -in; native replay of every counterexample"}],
    "checks": [], "not_applicable": [],
    "notes": "All checks: ./check CNN quick|thorough (exit 0/1/2 as in DESIGN.md §1). Every claim is bounded (bounds in evidence.coverage.bounds and DESIGN.md §4); nothing is a proof.",
}
for p in props:
    pid = p["id"]
    if pid in PROPS:
        P = PROPS[pid]
        m["checks"].append({
            "property_id": pid, "quick_cmd": "./check %s quick" % pid, "thorough_cmd": "./check %s thorough" % pid,
            "evidence_file": "/verif/evidence/%s.json" % pid, "replay_cmd_template": "./check %s --replay {path}" % pid, "engine": "symgo",
            "level_claimed": {"category": "model_checking",
                              "text": P.get("level_text", "bounded: for all inputs within the stated bounds, on all feasible paths of the real code's SSA, the assertion holds (solver verdict per path class); not a proof"),
                              "design_ref": "DESIGN.md §4 " + pid},
            "level_note": P.get("level_note", "trusted: go/ssa construction, the symgo interpreter and its library models (listed in evidence), z3 4.8.12; counterexamples are replayed natively before being reported. Outside the claim: " + P.get("outside", "")),
            "technique": P.get("technique", "bounded symbolic execution of the real Go code (go/ssa) with SMT (z3) path decisions"),
        })
    else:
        m["not_applicable"].append({"property_id": pid, "reason": NOT_APPLICABLE.get(pid, "check not built yet in this session (engine exists; harness pending) — to be replaced by a claim or a final reason")})
json.dump(m, open(os.path.join(ROOT, "MANIFEST.json"), "w"), indent=1)
print("claimed:", [c["property_id"] for c in m["checks"]])
