module nodot

go 1.23

require (
	github.com/jig/lisp v0.0.0
	verif.example/h v0.0.0
)

replace github.com/jig/lisp => /repo

replace verif.example/h => /verif/harness
