// Package nodot registers Go functions from a package whose import path contains no dot.
package nodot

import (
	"context"

	"github.com/jig/lisp/env"
	"github.com/jig/lisp/lib/call"
	. "github.com/jig/lisp/types"
	"verif.example/h/vrt"
)

var Entered int

func Named_Fn(a MalType) (MalType, error) { Entered++; return a, nil }

// Harness_register: both entry points, named functions and closures, register and call correctly.
func Harness_register() {
	ns := env.NewEnv()
	closure := func(a MalType) (MalType, error) { Entered++; return a, nil }
	name := "named-fn"
	how := vrt.Concrete(vrt.Choice("how", 3))
	panicked, msg := vrt.NoPanic(func() {
		switch how {
		case 0:
			call.Call(ns, Named_Fn)
		case 1:
			name = "renamed"
			call.CallOverrideFN(ns, name, Named_Fn)
		default:
			name = "from-closure"
			call.CallOverrideFN(ns, name, closure)
		}
	})
	vrt.Observe("how", how)
	vrt.Assert(!panicked, "registering a valid function panicked (package path without a dot): "+msg)
	f, err := ns.Get(Symbol{Val: name})
	vrt.Assert(err == nil, "function not bound under "+name)
	Entered = 0
	x := vrt.Int("x")
	r, err2 := f.(Func).Fn(context.Background(), []MalType{x})
	vrt.Assert(err2 == nil && Entered == 1 && r == x, "registered function not callable")
	vrt.Reach("end")
}
