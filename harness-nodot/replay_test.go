package nodot

import (
	"testing"

	"verif.example/h/vrt"
)

func TestReplay(t *testing.T) {
	vrt.ReplayMain(map[string]func(){"Harness_register": Harness_register})
}
