# Per-property run table for ./check.  Bounds listed here are the bounds of the claim.
PROPS = {
    "C14": {
        "technique": "bounded symbolic execution of types.Equal_Q (go/ssa) vs reference structural equality; SMT (z3) decides every path class",
        "outside": "values deeper than the bound; floats; functions/atoms (not data)",
        "runs": [
            {"pkg": "./c14", "harness": "Harness_pairs",
             "params": {"quick": {"depth": 1, "width": 1, "strlen": 1}, "thorough": {"depth": 1, "width": 2, "strlen": 2}}},
            {"pkg": "./c14", "harness": "Harness_triples",
             "params": {"quick": {"depth": 0, "width": 1, "strlen": 1}, "thorough": {"depth": 1, "width": 1, "strlen": 1}}},
        ],
    },
}
