# Per-property run table for ./check.  Bounds listed here are the bounds of the claim.
PROPS = {
    "C14": {
        "technique": "bounded symbolic execution of types.Equal_Q (go/ssa) vs reference structural equality; SMT (z3) decides every path class",
        "outside": "values deeper than the bound; floats; functions/atoms (not data)",
        "runs": [
            {"pkg": "./c14", "harness": "Harness_pairs",
             "params": {"quick": {"depth": 1, "width": 1, "strlen": 1}, "thorough": {"depth": 1, "width": 2, "strlen": 2}}},
            {"pkg": "./c14", "harness": "Harness_shared", "setup": "Setup", "params": {"quick": {}, "thorough": {}}},
            {"pkg": "./c14", "harness": "Harness_triples",
             "params": {"quick": {"depth": 0, "width": 1, "strlen": 1}, "thorough": {"depth": 1, "width": 1, "strlen": 1}}},
        ],
    },
    "C13": {
        "technique": "bounded symbolic execution of the registered core builtins (binder + reflect model in the path) vs an abstract sequence/map/set model written from README and step files; lazy symbolic arguments; SMT (z3) decides every path class",
        "outside": "JSON/base64/marshal builtins, arithmetic, update-in, lisp closures as function arguments (Go function values identity/fail/count/list are used), strings longer than the bound, collections wider than the bound",
        "assumptions": ["models answer 'unspecified' where README/step files/guide are silent (listed in harness/c13/c13.go)"],
        "runs": [
            {"pkg": "./c13", "harness": "Harness_builtin", "setup": "SetupSeeds",
             "params": {"quick": {"depth": 1, "width": 1, "strlen": 1, "maxargc": 3}, "thorough": {"depth": 1, "width": 2, "strlen": 1, "maxargc": 3}},
             "wall": {"thorough": "10m"}},
            {"pkg": "./c13", "harness": "Harness_seeded", "setup": "SetupSeeds", "params": {"quick": {}, "thorough": {}}},
            {"pkg": "./c13", "harness": "Harness_twomaps", "setup": "SetupSeeds", "params": {"quick": {}, "thorough": {}}},
            {"pkg": "./c13", "harness": "Harness_compose", "setup": "SetupSeeds",
             "params": {"quick": {"depth": 0, "width": 1}, "thorough": {"depth": 1, "width": 1}}, "wall": {"thorough": "10m"}},
        ],
    },
    "C02": {
        "technique": "bounded symbolic execution of operation histories over the real collection builtins and quasiquote/EVAL, exact slice aliasing/capacity (host append on 16-byte elements = []MalType), deep snapshot re-inspection after every step; SMT (z3) decides every path class",
        "outside": "histories longer than the bound; _PACKAGES_ registration (Go-side loader action); atoms/futures (reference objects); lisp closures as update functions (a Go function value conj-ing onto its argument is used)",
        "assumptions": ["append growth policy is the host runtime's for 16-byte elements (identical element size to types.MalType)"],
        "runs": [
            {"pkg": "./c02", "harness": "Harness_history", "setup": "Setup",
             "params": {"quick": {"steps": 2, "ophi": 18, "seedmask": 1043}, "thorough": {"steps": 2}}, "wall": {"thorough": "10m"}},
            {"pkg": "./c02", "harness": "Harness_maps", "setup": "Setup",
             "params": {"quick": {"steps": 2, "mapops": 1, "seedmask": 1004}, "thorough": {"steps": 3, "mapops": 1, "seedmask": 1004}}, "wall": {"thorough": "10m"}},
        ],
    },
    "C05": {
        "technique": "bounded symbolic execution of READ / READWithPreamble / read-string / PRINT incl. the whole jig/scanner on symbolic bytes over a 36-symbol alphabet; reachability of an escaping panic or of the step budget; SMT (z3) decides assertions, finite-domain evaluation (cross-checked against z3) decides branch feasibility",
        "outside": "texts longer than N bytes (templates extend the reach: constructor brackets, strings, raw strings, collections, preamble lines with symbolic holes); bytes outside the alphabet Sigma; strconv.ParseFloat is a model (arbitrary result); regexp is modelled by a backtracking matcher",
        "runs": [
            {"pkg": "./c05", "harness": "Harness_read", "setup": "Setup", "hang": True, "budget": 400000, "native_timeout": 20, "params": {"quick": {"n": 3}, "thorough": {"n": 4}}, "wall": {"thorough": "10m"}},
            {"pkg": "./c05", "harness": "Harness_readstring", "setup": "Setup", "hang": True, "budget": 400000, "native_timeout": 20, "params": {"quick": {"n": 2}, "thorough": {"n": 3}}},
            {"pkg": "./c05", "harness": "Harness_focus", "setup": "Setup", "hang": True, "budget": 400000, "native_timeout": 20, "params": {"quick": {"k": 2}, "thorough": {"k": 3}}, "wall": {"thorough": "10m"}},
            {"pkg": "./c05", "harness": "Harness_preamble", "setup": "Setup", "hang": True, "budget": 400000, "native_timeout": 20, "params": {"quick": {"n": 2, "v": 1, "c": 1}, "thorough": {"n": 3, "v": 2, "c": 1}}, "wall": {"thorough": "10m"}},
        ],
    },
    "C06": {
        "technique": "bounded symbolic execution of printer.Pr_str and reader/scanner: round-trip assertion on symbolic data values (strings over a 15-symbol ASCII alphabet plus the raw-string quote and the keyword marker, symbolic map iteration order) and on symbolic source texts; SMT (z3) decides assertions",
        "outside": "floats; symbolic integer magnitudes (integers range over a boundary set: decimal conversion of a symbolic 64-bit integer is a divide-by-constant kernel); invalid UTF-8 in values; Go constructor syntax; values deeper/wider than the bound; NUL inside strings",
        "runs": [
            {"pkg": "./c06", "harness": "Harness_value", "maporder": True,
             "params": {"quick": {"depth": 1, "width": 1, "strlen": 2}, "thorough": {"depth": 1, "width": 2, "strlen": 3}}, "wall": {"thorough": "10m"}},
            {"pkg": "./c06", "harness": "Harness_jsonish", "params": {"quick": {"strlen": 1}, "thorough": {"strlen": 3}}, "wall": {"thorough": "10m"}},
            {"pkg": "./c06", "harness": "Harness_text", "params": {"quick": {"n": 3}, "thorough": {"n": 4}}, "wall": {"thorough": "10m"}},
            {"pkg": "./c06", "harness": "Harness_text_quoted", "params": {"quick": {"n": 3, "quoted": 1}, "thorough": {"n": 4, "quoted": 1}}, "wall": {"thorough": "10m"}},
            {"pkg": "./c06", "harness": "Harness_text_raw", "params": {"quick": {"n": 3, "quoted": 2}, "thorough": {"n": 4, "quoted": 2}}, "wall": {"thorough": "10m"}},
        ],
    },
    "C16": {
        "technique": "bounded symbolic execution of reader.Read_str (scanner included) and repl.multiLine on symbolic bracket structures with symbolic string/comment content, every cut, every surplus/wrong closer; SMT (z3) decides assertions",
        "outside": "the Go-constructor brackets, unterminated strings (the statement is about brackets), cuts inside a token, the ^ reader macro, the interactive Execute loop (terminal I/O); structures deeper/wider than the bound",
        "runs": [
            {"pkg": "./c16", "harness": "Harness_cut", "overlay": {"/repo/repl/zz_verif_export.go": "harness/overlays/repl_export.go.txt"},
             "params": {"quick": {"depth": 2, "width": 1, "strlen": 1}, "thorough": {"depth": 2, "width": 2, "strlen": 2}}, "wall": {"thorough": "10m"}},
        ],
    },
    "C01": {
        "technique": "bounded symbolic execution of lisp.EVAL (eval_ast, do, env.*, types.Apply, binder) on lazily materialised symbolic ASTs, differential against an independent reference interpreter (result, error/no error, ordered effect trace, final globals); SMT (z3) decides assertions",
        "outside": "programs deeper/wider than the bound (skeleton families with symbolic holes and integers extend the reach: recursion with a symbolic counter <= 3, closures, shadowing, def inside fn, & rest, late def); host-stack exhaustion; builtins outside the vocabulary (+ - < = list count nil? trace!); = applied to functions (undefined); special-form names rebound as variables",
        "runs": [
            {"pkg": "./c01", "harness": "Harness_programs", "setup": "Setup",
             "params": {"quick": {"depth": 1, "width": 2}, "thorough": {"depth": 2, "width": 1}}, "wall": {"thorough": "10m"}},
            {"pkg": "./c01", "harness": "Harness_skeletons", "setup": "Setup",
             "params": {"quick": {"holedepth": 1}, "thorough": {"holedepth": 1}}, "wall": {"thorough": "10m"}},
        ],
    },
    "C03": {
        "technique": "bounded symbolic execution of EVAL's try special form, malRecover, core.throw, lisperror.*, binder _recover on symbolic try/catch/finally programs, differential against the reference try semantics (value, thrown object, ordered effect trace incl. catch-variable observations); SMT (z3) decides assertions",
        "outside": "finally bodies that throw; timeouts inside try (C07); positions (C17); nesting/forms beyond the bound",
        "runs": [
            {"pkg": "./c03", "harness": "Harness_try", "setup": "Setup",
             "params": {"quick": {"nest": 0, "forms": 1}, "thorough": {"nest": 0, "forms": 2}}, "wall": {"thorough": "10m"}},
            {"pkg": "./c03", "harness": "Harness_try_tail", "setup": "Setup",
             "params": {"quick": {"small": 1}, "thorough": {}}, "wall": {"thorough": "10m"}},
            {"pkg": "./c03", "harness": "Harness_try_small", "setup": "Setup",
             "params": {"quick": {"nest": 0, "forms": 2, "small": 1}, "thorough": {"nest": 1, "forms": 2, "small": 1}}, "wall": {"thorough": "10m"}},
        ],
    },
    "C04": {
        "technique": "bounded symbolic execution of lisp.EVAL on lazily materialised symbolic forms (every special form, every name the loaders registered enumerated from the environment at run time, non-symbol and unbound heads; operands: data values, nested forms, parameter lists with & anywhere, empty lists; quasiquote templates; closure/macro/let calls with arbitrary parameter lists); reachability of an escaping panic; SMT (z3) decides assertions",
        "outside": "stack exhaustion by deep recursion, cyclic values, builtins whose body needs an unmodelled library (json-encode json-decode hash-map-decode base64 unbase64 uuid spew version time-ms time-ns sleep slurp read-line str2binary binary2str split), forms deeper/wider than the bound, symbolic integer magnitudes (integers range over {0,1,-1,7})",
        "runs": [
            {"pkg": "./c04", "harness": "Harness_form", "setup": "Setup", "budget": 300000,
             "params": {"quick": {"depth": 0, "maxargs": 1}, "thorough": {"depth": 0, "maxargs": 2}}, "wall": {"thorough": "10m"}},
            {"pkg": "./c04", "harness": "Harness_quasi", "setup": "Setup", "budget": 300000,
             "params": {"quick": {"depth": 1}, "thorough": {"depth": 2}}, "wall": {"thorough": "10m"}},
            {"pkg": "./c04", "harness": "Harness_call", "setup": "Setup", "budget": 300000,
             "params": {"quick": {}, "thorough": {}}},
            {"pkg": "./c04", "harness": "Harness_concurrent", "setup": "Setup", "budget": 300000, "preemptions": 1,
             "params": {"quick": {}, "thorough": {}}},
            {"pkg": "./c04", "harness": "Harness_cancelled", "setup": "Setup", "budget": 300000,
             "params": {"quick": {"maxargs": 1}, "thorough": {"maxargs": 2}}, "wall": {"thorough": "10m"}},
        ],
    },
    "C12": {
        "technique": "bounded symbolic execution of quasiquote/qq_loop/macroexpand/is_macro_call/EVAL with the real cons/concat/vec and the real library macros: differential against an independent template substitution and macro semantics (reference interpreter) plus the relational check call == eval(macroexpand(call)) on results and effect traces; SMT (z3) decides assertions",
        "outside": "unquote inside map literals, a splice at the top of a template, nested quasiquote, operand-less (unquote) (C04's), templates/macros beyond the bound; the library macros time, defprotocol, future",
        "runs": [
            {"pkg": "./c12", "harness": "Harness_quasi", "setup": "Setup",
             "params": {"quick": {"depth": 1, "width": 2}, "thorough": {"depth": 2, "width": 2}}, "wall": {"thorough": "10m"}},
            {"pkg": "./c12", "harness": "Harness_macro", "setup": "Setup", "params": {"quick": {}, "thorough": {}}},
            {"pkg": "./c12", "harness": "Harness_libmacros", "setup": "Setup", "params": {"quick": {"maxops": 3}, "thorough": {"maxops": 5}}, "wall": {"thorough": "10m"}},
        ],
    },
    "C20": {
        "technique": "bounded symbolic execution of call.Call/CallOverrideFN/_args/_args_ctx/adapters/_recover with an engine model of reflect (Value.Call with count and assignability checks): contract table over 16 signature shapes x symbolic declared bounds in [-1,4] x argument lists of length 0..4 over six value kinds x five function behaviours, from a dotted and an undotted module; SMT (z3) decides assertions",
        "outside": "reflect itself is a model (every counterexample is replayed natively, so a model error cannot cause a false alarm but could hide a violation); signature shapes outside the 16 listed; more than 4 arguments",
        "runs": [
            {"pkg": "./c20", "harness": "Harness_contract", "setup": "Setup", "params": {"quick": {}, "thorough": {}}},
            {"pkg": ".", "moddir": "harness-nodot", "harness": "Harness_register", "params": {"quick": {}, "thorough": {}}},
        ],
    },
    "C15": {
        "technique": "bounded symbolic execution of AddPreamble, READWithPreamble (line splitting, regexp model), reader.Read_str/read_placeholder and printer.Pr_str on symbolic placeholder values (strings built from units that look like code, comments, preamble lines, JSON, other placeholders) in eight source templates, symbolic map order; both transports compared with the template's AST; SMT (z3) decides assertions",
        "outside": "placeholder names beyond the three used; values deeper than the bound; symbols whose name starts with $ (not producible by READ); source texts other than the eight templates",
        "runs": [
            {"pkg": "./c15", "harness": "Harness_transport", "maporder": True,
             "params": {"quick": {"depth": 0, "strlen": 1}, "thorough": {"depth": 1, "strlen": 2}}, "wall": {"thorough": "10m"}},
            {"pkg": "./c15", "harness": "Harness_strings", "maporder": True,
             "params": {"quick": {"depth": 0, "strlen": 3, "stringsonly": 1, "templates": 1}, "thorough": {"depth": 0, "strlen": 3, "stringsonly": 1, "templates": 2}}, "wall": {"quick": "100s", "thorough": "10m"}},
        ],
    },
    "C18": {
        "technique": "bounded symbolic execution of EVAL's debugger section, do's step-out bookkeeping and the recursion-instead-of-loop branch: relational check stepper-off vs stepper-on over a symbolic command sequence (NoOp/Next/In/Out for the first k consultations) on the C01, C03 and C12 program families; SMT (z3) decides assertions",
        "outside": "the interactive debugger package (keyboard/terminal I/O); unknown command values (the code panics by design); programs beyond the bounds; the exact list of forms handed to the callback is not compared with the reference evaluation order (only that every consultation carries a non-nil scope)",
        "runs": [
            {"pkg": "./c18", "harness": "Harness_stepper", "setup": "Setup",
             "params": {"quick": {"depth": 1, "width": 1, "cmds": 2, "small": 1, "forms": 1}, "thorough": {"depth": 1, "width": 1, "cmds": 4, "small": 1, "forms": 2}}, "wall": {"thorough": "10m"}},
        ],
    },
    "C08": {
        "technique": "bounded symbolic execution of EVAL's TCO loop and macroexpand with the real cond/and/or macros: one inductive loop step taken twice with a symbolic 64-bit counter (only n >= 3 assumed); the engine's live SSA activation count is the host stack depth; SMT (z3) decides the counter's path conditions and assertions",
        "outside": "debugger mode (recursion is deliberate); try bodies (not tail positions); loop shapes with more nested wrappers or longer function cycles than the bound; host frames are counted as SSA activations (inlining aside)",
        "runs": [
            {"pkg": "./c08", "harness": "Harness_tail", "setup": "Setup",
             "params": {"quick": {"wrappers": 2, "cycle": 2}, "thorough": {"wrappers": 3, "cycle": 3}}, "wall": {"thorough": "10m"}},
            {"pkg": "./c08", "harness": "Harness_tail_session", "setup": "Setup",
             "params": {"quick": {"wrappers": 1, "cycle": 2, "session": 1}, "thorough": {"wrappers": 2, "cycle": 2, "session": 1}}, "wall": {"thorough": "10m"}},
        ],
    },
    "C19": {
        "technique": "bounded symbolic execution of READ/EVAL/PRINT, REPL-style form-by-form delivery and the real load-file/eval/read-string/str/slurp chain (file table model) on program texts with symbolic layout (blank space, LF, CRLF, TAB, comments with symbolic content, trailing comment without newline): relational comparison of result, thrown object, effect trace and globals between delivery routes; SMT (z3) decides assertions",
        "outside": "real file-system I/O, the command-line front end; programs other than the seven form skeletons; symbolic layout only at every stride-th token gap; L-notation is represented by the position-free AST",
        "runs": [
            {"pkg": "./c19", "harness": "Harness_routes", "setup": "Setup",
             "params": {"quick": {"fill": 1, "forms": 1, "stride": 3}, "thorough": {"fill": 1, "forms": 2, "stride": 4}}, "wall": {"quick": "150s", "thorough": "10m"}},
        ],
    },
    "C17": {
        "technique": "bounded symbolic execution of the scanner's line bookkeeping, tokenize, read_list cursors, Position.Close, EVAL's error sites, NewLispError and env lookups on program texts with symbolic layout (blank space, LF, CRLF, TAB, comments, multi-line raw strings) around one planted fault in eleven nesting constructs; position assertion against line numbers computed by the harness; SMT (z3) decides assertions",
        "outside": "columns; errors raised in other threads; faults reached through map/apply/swap! (re-positioned at the calling form); faults other than the four planted ones; layout beyond the bound",
        "runs": [
            {"pkg": "./c17", "harness": "Harness_position", "setup": "Setup",
             "params": {"quick": {"fill": 1, "fill_u0": 0, "fill_u3": 0, "okforms": 2}, "thorough": {"fill": 1}}, "wall": {"thorough": "10m"}},
        ],
    },
    "C09": {
        "technique": "bounded symbolic execution of swap!/reset!/deref (through their registered builtins, with an engine model of sync.RWMutex incl. 'a blocked Lock excludes new readers') under symbolic schedules (preemption-bounded, scheduling points at every lock operation; vector-clock race detection on every heap access); per schedule class linearizability is ONE SMT query (z3) over the symbolic initial value, deltas and results; deadlock = no enabled thread",
        "outside": "more threads/operations/preemptions than the bound; update functions written in lisp (their evaluator interleavings belong to C11); printing an atom; an update function that swaps the very atom being swapped (excluded by the statement); native replay cannot force a schedule: counterexamples are confirmed by repeating the experiment natively under the race detector",
        "level_note": "trusted: go/ssa, the symgo interpreter, its RWMutex/goroutine/channel models and scheduler (sequentially consistent interleavings at synchronisation operations; DRF-SC), z3; the Go memory model beyond SC is not modelled",
        "runs": [
            {"pkg": "./c09", "harness": "Harness_atom", "setup": "Setup", "race": True, "native_timeout": 120, "preemptions": 2,
             "params": {"quick": {"threads": 2, "ops": 1, "kinds": 7}, "thorough": {"threads": 2, "ops": 2, "kinds": 7}}, "wall": {"thorough": "10m"}},
            {"pkg": "./c09", "harness": "Harness_atom2", "setup": "Setup", "race": True, "native_timeout": 120, "preemptions": 2,
             "params": {"quick": {"threads": 2, "ops": 2, "kinds": 3}, "thorough": {"threads": 3, "ops": 1, "kinds": 7}}, "wall": {"quick": "150s", "thorough": "10m"}},
        ],
    },
    "C10": {
        "technique": "bounded symbolic execution of NewFuture and its goroutine, Future.Deref/Cancel, the status builtins and the real context.WithCancel (sync.Mutex, atomic.Value and channel models) under symbolic schedules (preemption-bounded; scheduling points at lock, channel, select, atomic, go and exit operations); vector-clock race detection on every heap access; observation-based consistency assertions; deadlock = no enabled thread",
        "outside": "more client threads/operations/preemptions than the bound; a body that panics (C04); plain deref of a future whose body never ends; native replay cannot force a schedule: counterexamples are confirmed by repeating the experiment natively under the race detector; the schedule choices themselves are enumerated by the engine (no data is symbolic here), the solver only decides data-dependent branches",
        "level_note": "trusted: go/ssa, the symgo interpreter, its mutex/atomic/channel/goroutine models and scheduler (sequentially consistent interleavings at synchronisation operations; DRF-SC); the Go memory model beyond SC is not modelled",
        "runs": [
            {"pkg": "./c10", "harness": "Harness_future", "setup": "Setup", "race": True, "native_timeout": 120,
             "preemptions": {"quick": 1, "thorough": 2},
             "params": {"quick": {"threads": 2, "ops": 1}, "thorough": {"threads": 2, "ops": 1}}, "wall": {"thorough": "10m"}},
            {"pkg": "./c10", "harness": "Harness_future2", "setup": "Setup", "race": True, "native_timeout": 120,
             "preemptions": {"quick": 1, "thorough": 1},
             "params": {"quick": {"threads": 2, "ops": 2}, "thorough": {"threads": 2, "ops": 2}}, "wall": {"quick": "100s", "thorough": "10m"}},
        ],
    },
    "C11": {
        "technique": "bounded symbolic execution of lisp.EVAL and env.* under two engine threads on one root environment preloaded by the real loaders (core, header libraries incl. gensym and memoize, concurrent): symbolic schedules (preemption-bounded; scheduling points at every lock, channel, atomic, go and exit operation), vector-clock race detection on every heap and map access, deadlock detection, each result compared with the solo result",
        "outside": "more than two evaluations, more preemptions than the bound, programs other than the ten templates, the debugger globals with a stepper installed; the schedule choices are enumerated by the engine (program data is concrete here): this is the thinnest claim of the set",
        "level_note": "trusted: go/ssa, the symgo interpreter, its RWMutex/atomic/channel/goroutine models and scheduler (sequentially consistent interleavings at synchronisation operations; DRF-SC)",
        "runs": [
            {"pkg": "./c11", "harness": "Harness_pair", "setup": "Setup", "race": True, "native_timeout": 120, "threads": 6,
             "preemptions": {"quick": 1, "thorough": 1},
             "params": {"quick": {"templates": 5}, "thorough": {"templates": 10}}, "wall": {"thorough": "10m"}},
            {"pkg": "./c11", "harness": "Harness_gensym", "setup": "SetupGensym", "race": True, "native_timeout": 120, "threads": 6,
             "preemptions": {"quick": 2, "thorough": 3}, "params": {"quick": {}, "thorough": {}}, "wall": {"quick": "150s", "thorough": "10m"}},
        ],
    },
    "C07": {
        "technique": "bounded symbolic execution of EVAL's context poll, macroexpand, the try budget split, the deferred finally, core.sleep, Future.Deref and the real context.WithTimeout/WithCancel: (1) logical time: the cancellation instant is a solver variable (the k-th loop iteration) for non-terminating programs; (2) virtual time: sleep durations and the deadline are solver variables over one virtual clock (time.* models), the 80% split's division is decided by z3 5.1 / cvc5; exhausting the step budget counts as a hang",
        "outside": "wall-clock latency, GC/scheduler delay, the duration of one builtin call, builtins that block without a context (read-line); loops that do not call the tick builtin; nesting/k/durations beyond the bounds (durations < 2^20 ms)",
        "level_note": "partial claim: promptness is established in logical / virtual time only; trusted: go/ssa, the symgo interpreter, its time/context/channel models and virtual clock, z3",
        "runs": [
            {"pkg": "./c07", "harness": "Harness_cancel", "setup": "Setup", "hang": True, "budget": 3000000, "native_timeout": 30, "preemptions": 1,
             "params": {"quick": {"nest": 1, "maxk": 3}, "thorough": {"nest": 2, "maxk": 6}}, "wall": {"thorough": "10m"}},
            {"pkg": "./c07", "harness": "Harness_sleep", "setup": "Setup", "hang": True, "solver": "z3-new", "native_timeout": 30,
             "params": {"quick": {}, "thorough": {}}},
        ],
    },
}
