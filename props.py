# Per-property run table for ./check.  Bounds listed here are the bounds of the claim.
PROPS = {
    "C14": {
        "technique": "bounded symbolic execution of types.Equal_Q (go/ssa) vs reference structural equality; SMT (z3) decides every path class",
        "outside": "values deeper than the bound; floats; functions/atoms (not data)",
        "runs": [
            {"pkg": "./c14", "harness": "Harness_pairs",
             "params": {"quick": {"depth": 1, "width": 1, "strlen": 1}, "thorough": {"depth": 1, "width": 2, "strlen": 2}}},
            {"pkg": "./c14", "harness": "Harness_triples",
             "params": {"quick": {"depth": 0, "width": 1, "strlen": 1}, "thorough": {"depth": 1, "width": 1, "strlen": 1}}},
        ],
    },
    "C13": {
        "technique": "bounded symbolic execution of the registered core builtins (binder + reflect model in the path) vs an abstract sequence/map/set model written from README and step files; lazy symbolic arguments; SMT (z3) decides every path class",
        "outside": "JSON/base64/marshal builtins, arithmetic, update-in, lisp closures as function arguments (Go function values identity/fail/count/list are used), strings longer than the bound, collections wider than the bound",
        "assumptions": ["models answer 'unspecified' where README/step files/guide are silent (listed in harness/c13/c13.go)"],
        "runs": [
            {"pkg": "./c13", "harness": "Harness_builtin", "setup": "SetupSeeds",
             "params": {"quick": {"depth": 1, "width": 1, "strlen": 1, "maxargc": 3}, "thorough": {"depth": 1, "width": 2, "strlen": 1, "maxargc": 3}},
             "wall": {"thorough": "40m"}},
            {"pkg": "./c13", "harness": "Harness_seeded", "setup": "SetupSeeds", "params": {"quick": {}, "thorough": {}}},
            {"pkg": "./c13", "harness": "Harness_compose", "setup": "SetupSeeds",
             "params": {"quick": {"depth": 0, "width": 1}, "thorough": {"depth": 1, "width": 1}}, "wall": {"thorough": "40m"}},
        ],
    },
}
