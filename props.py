# Per-property run table for ./check.  Bounds listed here are the bounds of the claim.
PROPS = {
    "C14": {
        "technique": "bounded symbolic execution of types.Equal_Q (go/ssa) vs reference structural equality; SMT (z3) decides every path class",
        "outside": "values deeper than the bound; floats; functions/atoms (not data)",
        "runs": [
            {"pkg": "./c14", "harness": "Harness_pairs",
             "params": {"quick": {"depth": 1, "width": 1, "strlen": 1}, "thorough": {"depth": 1, "width": 2, "strlen": 2}}},
            {"pkg": "./c14", "harness": "Harness_triples",
             "params": {"quick": {"depth": 0, "width": 1, "strlen": 1}, "thorough": {"depth": 1, "width": 1, "strlen": 1}}},
        ],
    },
    "C13": {
        "technique": "bounded symbolic execution of the registered core builtins (binder + reflect model in the path) vs an abstract sequence/map/set model written from README and step files; lazy symbolic arguments; SMT (z3) decides every path class",
        "outside": "JSON/base64/marshal builtins, arithmetic, update-in, lisp closures as function arguments (Go function values identity/fail/count/list are used), strings longer than the bound, collections wider than the bound",
        "assumptions": ["models answer 'unspecified' where README/step files/guide are silent (listed in harness/c13/c13.go)"],
        "runs": [
            {"pkg": "./c13", "harness": "Harness_builtin", "setup": "SetupSeeds",
             "params": {"quick": {"depth": 1, "width": 1, "strlen": 1, "maxargc": 3}, "thorough": {"depth": 1, "width": 2, "strlen": 1, "maxargc": 3}},
             "wall": {"thorough": "40m"}},
            {"pkg": "./c13", "harness": "Harness_seeded", "setup": "SetupSeeds", "params": {"quick": {}, "thorough": {}}},
            {"pkg": "./c13", "harness": "Harness_compose", "setup": "SetupSeeds",
             "params": {"quick": {"depth": 0, "width": 1}, "thorough": {"depth": 1, "width": 1}}, "wall": {"thorough": "40m"}},
        ],
    },
    "C02": {
        "technique": "bounded symbolic execution of operation histories over the real collection builtins and quasiquote/EVAL, exact slice aliasing/capacity (host append on 16-byte elements = []MalType), deep snapshot re-inspection after every step; SMT (z3) decides every path class",
        "outside": "histories longer than the bound; _PACKAGES_ registration (Go-side loader action); atoms/futures (reference objects); lisp closures as update functions (a Go function value conj-ing onto its argument is used)",
        "assumptions": ["append growth policy is the host runtime's for 16-byte elements (identical element size to types.MalType)"],
        "runs": [
            {"pkg": "./c02", "harness": "Harness_history", "setup": "Setup",
             "params": {"quick": {"steps": 2, "ophi": 15}, "thorough": {"steps": 2}}, "wall": {"thorough": "40m"}},
        ],
    },
}
