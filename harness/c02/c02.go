// Package c02: lisp values are immutable.
//
// A symbolic history of collection operations is applied to a pool of values
// (seeds built through the real reader and builtins so that backing arrays have
// the spare capacity real programs get).  A deep snapshot is taken when a value
// enters the pool; after every step every pooled value must still equal its
// snapshot.
package c02

import (
	"context"

	"github.com/jig/lisp"
	"github.com/jig/lisp/env"
	"github.com/jig/lisp/lib/core"
	"github.com/jig/lisp/lib/core/nscore"
	"github.com/jig/lisp/reader"
	. "github.com/jig/lisp/types"
	"verif.example/h/lib"
	"verif.example/h/vrt"
)

var (
	Env      EnvType
	seedVals []MalType
	seedSrc  = []string{"[1 2 3]", "(1 2 3)", "{:a 1 :b 2}", "#{:a :b}", "[[1 2 3] {:a [1 2 3]}]", "{}", "#{}"}
)

func builtin(name string) Func {
	f, err := Env.Get(Symbol{Val: name})
	if err != nil {
		panic(err)
	}
	return f.(Func)
}

func call(name string, args ...MalType) (MalType, error) {
	return builtin(name).Fn(context.Background(), args)
}

func Setup() {
	Env = env.NewEnv()
	if vrt.Param("headers", 0) == 1 {
		if err := nscore.Load(Env); err != nil {
			panic(err)
		}
	} else {
		core.Load(Env)
	}
	for _, src := range seedSrc {
		v, err := reader.Read_str(src, nil, nil)
		if err != nil {
			panic(err)
		}
		seedVals = append(seedVals, v)
	}
	// empty collections produced by builtins (their representation may differ from literals)
	for _, mk := range [][]MalType{{Symbol{Val: "hash-map"}}, {Symbol{Val: "dissoc"}, seedVals[2], NewKeyword("a"), NewKeyword("b")}, {Symbol{Val: "set"}, List{}}} {
		f, _ := Env.Get(mk[0].(Symbol))
		if v, err := f.(Func).Fn(context.Background(), mk[1:]); err == nil {
			seedVals = append(seedVals, v)
		}
	}
	// a vector with spare capacity produced by a builtin
	v, err := call("conj", seedVals[0], 4, 5)
	if err != nil {
		panic(err)
	}
	seedVals = append(seedVals, v)
}

// snap is a deep, independent copy.
func snap(v MalType) MalType {
	switch x := v.(type) {
	case List:
		out := make([]MalType, len(x.Val))
		for i, e := range x.Val {
			out[i] = snap(e)
		}
		return List{Val: out, Meta: snapMeta(x.Meta)}
	case Vector:
		out := make([]MalType, len(x.Val))
		for i, e := range x.Val {
			out[i] = snap(e)
		}
		return Vector{Val: out, Meta: snapMeta(x.Meta)}
	case HashMap:
		out := map[string]MalType{}
		for k, e := range x.Val {
			out[k] = snap(e)
		}
		return HashMap{Val: out, Meta: snapMeta(x.Meta)}
	case Set:
		out := map[string]struct{}{}
		for k := range x.Val {
			out[k] = struct{}{}
		}
		return Set{Val: out, Meta: snapMeta(x.Meta)}
	}
	return v
}

func snapMeta(m MalType) MalType {
	if m == nil {
		return nil
	}
	return snap(m)
}

// same compares a value with its snapshot: structure, kind and metadata.
func same(a, b MalType) bool {
	switch x := a.(type) {
	case List:
		y, ok := b.(List)
		return ok && sameSeq(x.Val, y.Val) && same(x.Meta, y.Meta)
	case Vector:
		y, ok := b.(Vector)
		return ok && sameSeq(x.Val, y.Val) && same(x.Meta, y.Meta)
	case HashMap:
		y, ok := b.(HashMap)
		if !ok || len(x.Val) != len(y.Val) || !same(x.Meta, y.Meta) {
			return false
		}
		for k, v := range x.Val {
			w, present := y.Val[k]
			if !present || !same(v, w) {
				return false
			}
		}
		return true
	case Set:
		y, ok := b.(Set)
		if !ok || len(x.Val) != len(y.Val) || !same(x.Meta, y.Meta) {
			return false
		}
		for k := range x.Val {
			if _, present := y.Val[k]; !present {
				return false
			}
		}
		return true
	case Func, MalFunc:
		return true
	}
	return lib.RefEq(a, b)
}

func sameSeq(x, y []MalType) bool {
	if len(x) != len(y) {
		return false
	}
	for i := range x {
		if !same(x[i], y[i]) {
			return false
		}
	}
	return true
}

type pool struct {
	vals  []MalType
	snaps []MalType
	names []string
}

func (p *pool) add(v MalType, name string) {
	p.vals = append(p.vals, v)
	p.snaps = append(p.snaps, snap(v))
	p.names = append(p.names, name)
}

func (p *pool) pick(tag string) MalType {
	return p.vals[vrt.Concrete(vrt.Choice(tag, len(p.vals)))]
}

func (p *pool) check(step string) {
	for i := range p.vals {
		vrt.Assert(same(p.vals[i], p.snaps[i]), "value "+p.names[i]+" changed after "+step)
	}
}

// the first nShare operations are the ones that hand out (parts of) their
// argument's backing array; parameter oplo/ophi select a sub-range
var ops = []string{
	"conj1", "conj2", "concat2", "concat3", "concat-empty-first", "concat-vec-first", "cons", "subvec", "rest", "vec", "seq", "apply-conj", "apply-concat",
	"qq-splice-first", "qq-splice-two", "qq-vector", "with-meta",
	"assoc", "dissoc", "take", "drop", "take-last", "drop-last", "merge", "rename-keys", "assoc-in", "update", "update-in",
	"map", "first", "nth",
}

// operations that copy-before-write maps and sets
var mapOps = []string{"conj1", "conj2", "assoc", "dissoc", "merge", "rename-keys", "assoc-in", "update", "update-in", "with-meta", "vec", "seq"}

var fnConjX = Func{Fn: func(ctx context.Context, a []MalType) (MalType, error) {
	// (fn [c] (conj c 99)) as a Go function value
	if len(a) != 1 {
		return nil, nil
	}
	return builtin("conj").Fn(ctx, []MalType{a[0], 99})
}}

func key(tag string) string {
	return NewKeyword(string([]byte{vrt.ByteIn(tag, "abc")}))
}

// step applies one operation; returns the result (nil, false when it failed).
func step(p *pool, tag string) (MalType, string, bool) {
	lo := vrt.Param("oplo", 0)
	hi := vrt.Param("ophi", len(ops))
	var op string
	if vrt.Param("mapops", 0) == 1 {
		op = mapOps[vrt.Concrete(vrt.Choice(tag+"/op", len(mapOps)))]
	} else {
		op = ops[lo+vrt.Concrete(vrt.Choice(tag+"/op", hi-lo))]
	}
	x := vrt.Int(tag + "/x")
	y := vrt.Int(tag + "/y")
	var r MalType
	var err error
	switch op {
	case "conj1":
		// the new element may be nil: nil is a legitimate element, not an "unused slot"
		var xe MalType = x
		if vrt.Bool(tag + "/xnil") {
			xe = nil
		}
		r, err = call("conj", p.pick(tag+"/a"), xe)
	case "conj2":
		r, err = call("conj", p.pick(tag+"/a"), x, y)
	case "concat2":
		r, err = call("concat", p.pick(tag+"/a"), p.pick(tag+"/b"))
	case "concat3":
		r, err = call("concat", p.pick(tag+"/a"), List{Val: []MalType{x}}, p.pick(tag+"/b"))
	case "concat-empty-first":
		// leading empty sequences, then a pooled value, then fresh elements
		r, err = call("concat", List{Val: []MalType{}}, p.pick(tag+"/a"), List{Val: []MalType{x}})
	case "concat-vec-first":
		r, err = call("concat", Vector{}, List{}, p.pick(tag+"/a"), Vector{Val: []MalType{x, y}})
	case "cons":
		r, err = call("cons", x, p.pick(tag+"/a"))
	case "assoc":
		a := p.pick(tag + "/a")
		if _, isVec := a.(Vector); isVec {
			r, err = call("assoc", a, vrt.IntRange(tag+"/i", -1, 6), y)
		} else {
			r, err = call("assoc", a, key(tag+"/k"), y)
		}
	case "dissoc":
		r, err = call("dissoc", p.pick(tag+"/a"), key(tag+"/k"))
	case "subvec":
		r, err = call("subvec", p.pick(tag+"/a"), vrt.IntRange(tag+"/i", -1, 6), vrt.IntRange(tag+"/j", -1, 6))
	case "rest":
		r, err = call("rest", p.pick(tag+"/a"))
	case "vec":
		r, err = call("vec", p.pick(tag+"/a"))
	case "seq":
		r, err = call("seq", p.pick(tag+"/a"))
	case "take", "drop", "take-last", "drop-last":
		r, err = call(op, vrt.IntRange(tag+"/i", -1, 6), p.pick(tag+"/a"))
	case "merge":
		r, err = call("merge", p.pick(tag+"/a"), p.pick(tag+"/b"))
	case "rename-keys":
		r, err = call("rename-keys", p.pick(tag+"/a"), HashMap{Val: map[string]MalType{key(tag + "/k"): key(tag + "/k2")}})
	case "with-meta":
		r, err = call("with-meta", p.pick(tag+"/a"), p.pick(tag+"/b"))
	case "assoc-in":
		a := p.pick(tag + "/a")
		if _, isVec := a.(Vector); isVec {
			r, err = call("assoc-in", a, Vector{Val: []MalType{vrt.IntRange(tag+"/i", 0, 5), vrt.IntRange(tag+"/j", 0, 3)}}, y)
		} else {
			r, err = call("assoc-in", a, Vector{Val: []MalType{key(tag + "/k"), key(tag + "/k2")}}, y)
		}
	case "update":
		a := p.pick(tag + "/a")
		if _, isVec := a.(Vector); isVec {
			r, err = call("update", a, vrt.IntRange(tag+"/i", 0, 5), fnConjX)
		} else {
			r, err = call("update", a, key(tag+"/k"), fnConjX)
		}
	case "update-in":
		a := p.pick(tag + "/a")
		if _, isVec := a.(Vector); isVec {
			r, err = call("update-in", a, Vector{Val: []MalType{vrt.IntRange(tag+"/i", 0, 5), key(tag + "/k")}}, fnConjX)
		} else {
			r, err = call("update-in", a, Vector{Val: []MalType{key(tag + "/k")}}, fnConjX)
		}
	case "apply-conj":
		r, err = call("apply", builtin("conj"), p.pick(tag+"/a"), List{Val: []MalType{x}})
	case "apply-concat":
		r, err = call("apply", builtin("concat"), p.pick(tag+"/a"), List{Val: []MalType{p.pick(tag + "/b")}})
	case "map":
		r, err = call("map", fnConjX, p.pick(tag+"/a"))
	case "first":
		r, err = call("first", p.pick(tag+"/a"))
	case "nth":
		r, err = call("nth", p.pick(tag+"/a"), vrt.IntRange(tag+"/i", -1, 6))
	case "qq-splice-first", "qq-splice-two", "qq-vector":
		// quasiquote templates evaluated by the real EVAL with pool values bound to names
		e := env.NewSubordinateEnv(Env)
		e.Set(Symbol{Val: "a"}, p.pick(tag+"/a"))
		e.Set(Symbol{Val: "b"}, p.pick(tag+"/b"))
		e.Set(Symbol{Val: "x"}, x)
		sp := func(n string) MalType { return List{Val: []MalType{Symbol{Val: "splice-unquote"}, Symbol{Val: n}}} }
		uq := func(n string) MalType { return List{Val: []MalType{Symbol{Val: "unquote"}, Symbol{Val: n}}} }
		var tmpl MalType
		switch op {
		case "qq-splice-first":
			tmpl = List{Val: []MalType{sp("a"), uq("x")}}
		case "qq-splice-two":
			tmpl = List{Val: []MalType{sp("a"), sp("b")}}
		default:
			tmpl = Vector{Val: []MalType{sp("a"), uq("x")}}
		}
		r, err = lisp.EVAL(context.Background(), List{Val: []MalType{Symbol{Val: "quasiquote"}, tmpl}}, e)
	}
	return r, op, err == nil
}

// Harness_history: L steps, all earlier values re-inspected after every step.
func Harness_history() {
	p := &pool{}
	mask := vrt.Param("seedmask", (1<<len(seedVals))-1)
	for i, v := range seedVals {
		if mask&(1<<i) != 0 {
			p.add(v, "seed"+string(rune('a'+i))+" "+seedSrc0(i))
		}
	}
	L := vrt.Param("steps", 2)
	hist := ""
	for s := 0; s < L; s++ {
		tag := "s" + string(rune('0'+s))
		r, op, ok := step(p, tag)
		if hist != "" {
			hist += ","
		}
		hist += op
		vrt.Observe(tag, op)
		p.check(hist)
		if ok {
			p.add(r, "result of step "+string(rune('1'+s))+" ("+op+")")
		}
	}
	vrt.Reach("end")
}

func seedSrc0(i int) string {
	if i < len(seedSrc) {
		return seedSrc[i]
	}
	extra := []string{"(hash-map)", "(dissoc {:a 1 :b 2} :a :b)", "(set ())", "(conj [1 2 3] 4 5)"}
	if i-len(seedSrc) < len(extra) {
		return extra[i-len(seedSrc)]
	}
	return "?"
}

// Harness_maps: the same history check over the map / set operations and the map / set seeds
// (literal and builtin-made empty ones included).
func Harness_maps() { Harness_history() }
