package c02

import (
	"testing"

	"verif.example/h/vrt"
)

func TestReplay(t *testing.T) {
	Setup()
	vrt.ReplayMain(map[string]func(){"Harness_history": Harness_history, "Harness_maps": Harness_maps})
}
