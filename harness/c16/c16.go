// Package c16: incomplete input is told apart from malformed input.
package c16

import (
	"github.com/jig/lisp"
	"github.com/jig/lisp/repl"
	. "github.com/jig/lisp/types"
	"verif.example/h/lib"
	"verif.example/h/vrt"
)

type tok struct {
	text  string
	open  string // closer this token opens ("" if none)
	close bool   // token closes the innermost bracket
	noCut bool   // a cut right after this token cannot be completed by closers alone
}

var openers = []string{"(", "[", "{", "#{"}
var closers = []string{")", "]", "}", "}"}

// content of strings / comments: bracket characters, an escaped quote, letters
func inner(tag string, n int, alpha string) string {
	b := make([]byte, n)
	for i := range b {
		b[i] = vrt.ByteIn(tag+string(rune('0'+i)), alpha)
	}
	return string(b)
}

// atom returns one atom token and its value.
func atom(tag string) (tok, MalType) {
	switch vrt.Concrete(vrt.Choice(tag+"/a", 5)) {
	case 0:
		return tok{text: "7"}, 7
	case 1:
		return tok{text: "ab"}, Symbol{Val: "ab"}
	case 2:
		return tok{text: ":k"}, NewKeyword("k")
	case 3:
		s := inner(tag+"/s", vrt.Param("strlen", 2), "()]} a;")
		return tok{text: "\"" + s + "\""}, s
	default:
		s := inner(tag+"/r", vrt.Param("strlen", 2), "()[} a\"")
		return tok{text: "¬" + s + "¬"}, s
	}
}

// expr returns the tokens of a well-formed expression and the value it denotes.
func expr(tag string, depth int) ([]tok, MalType) {
	var pre []tok
	wrap := func(v MalType) MalType { return v }
	// reader-macro prefixes: ' ` ~ ~@ @ and ^meta (a cut right behind one cannot be completed by closers alone)
	// (all of them on the outermost expression; none / ' / ^:m on nested ones, to keep the space small)
	nq := 3
	if depth == vrt.Param("depth", 2) {
		nq = 8
	}
	q := vrt.Concrete(vrt.Choice(tag+"/q", nq))
	if nq == 3 && q == 2 {
		q = 6
	}
	switch q {
	case 1, 2, 3, 4, 5:
		mark := []string{"'", "`", "~", "~@", "@"}[q-1]
		head := []string{"quote", "quasiquote", "unquote", "splice-unquote", "deref"}[q-1]
		pre = append(pre, tok{text: mark, noCut: true})
		wrap = func(v MalType) MalType { return List{Val: []MalType{Symbol{Val: head}, v}} }
	case 6:
		pre = append(pre, tok{text: "^", noCut: true}, tok{text: ":m", noCut: true})
		wrap = func(v MalType) MalType { return List{Val: []MalType{Symbol{Val: "with-meta"}, v, NewKeyword("m")}} }
	case 7:
		pre = append(pre, tok{text: "^", noCut: true}, tok{text: "{", open: "}", noCut: true}, tok{text: ":m", noCut: true}, tok{text: "1"}, tok{text: "}", close: true, noCut: true})
		wrap = func(v MalType) MalType {
			return List{Val: []MalType{Symbol{Val: "with-meta"}, v, HashMap{Val: map[string]MalType{NewKeyword("m"): 1}}}}
		}
	}
	if vrt.Bool(tag + "/c") {
		// a comment line with symbolic content (brackets included) before the expression
		pre = append(pre, tok{text: ";" + inner(tag+"/cm", 2, "()[]{}\"a ") + "\n", noCut: len(pre) > 0})
	}
	if depth == 0 || vrt.Bool(tag+"/atom") {
		t, v := atom(tag)
		return append(pre, t), wrap(v)
	}
	k := vrt.Concrete(vrt.Choice(tag+"/b", len(openers)))
	n := vrt.Concrete(vrt.Choice(tag+"/n", vrt.Param("width", 2)+1))
	toks := append(pre, tok{text: openers[k], open: closers[k]})
	var elems []MalType
	for i := 0; i < n; i++ {
		etag := tag + "/" + string(rune('0'+i))
		switch k {
		case 2: // map: keyword key then value; no cut between key and value
			key := ":" + string([]byte{vrt.ByteIn(etag+"/key", "xyz")})
			toks = append(toks, tok{text: key, noCut: true})
			ts, v := expr(etag, depth-1)
			toks = append(toks, ts...)
			elems = append(elems, NewKeyword(key[1:]), v)
		case 3: // set of keywords
			key := ":" + string([]byte{vrt.ByteIn(etag+"/key", "xyz")})
			toks = append(toks, tok{text: key})
			elems = append(elems, NewKeyword(key[1:]))
		default:
			ts, v := expr(etag, depth-1)
			toks = append(toks, ts...)
			elems = append(elems, v)
		}
	}
	toks = append(toks, tok{text: closers[k], close: true})
	var v MalType
	switch k {
	case 0:
		v = List{Val: append([]MalType{}, elems...)}
	case 1:
		v = Vector{Val: append([]MalType{}, elems...)}
	case 2:
		m := map[string]MalType{}
		for i := 0; i+1 < len(elems); i += 2 {
			m[elems[i].(string)] = elems[i+1]
		}
		v = HashMap{Val: m}
	default:
		m := map[string]struct{}{}
		for _, e := range elems {
			m[e.(string)] = struct{}{}
		}
		v = Set{Val: m}
	}
	return toks, wrap(v)
}

func join(ts []tok) string {
	s := ""
	for i, t := range ts {
		if i > 0 {
			s += " "
		}
		s += t.text
	}
	return s
}

func errText(err error) string {
	if le, ok := err.(interface{ ErrorValue() MalType }); ok {
		if e, ok := le.ErrorValue().(error); ok {
			return e.Error()
		}
	}
	return err.Error()
}

// Harness_cut: every prefix with an open bracket is "expected <closer>, got EOF";
// the complete text reads as the intended value; a surplus closer, a wrong
// closer or a second expression is a different error.
func Harness_cut() {
	toks, want := expr("e", vrt.Param("depth", 2))
	mode := vrt.Concrete(vrt.Choice("mode", 5))
	switch mode {
	case 0: // complete
		src := join(toks)
		vrt.Observe("src", src)
		got, err := lisp.READ(src, nil, nil)
		vrt.Assert(err == nil, "complete expression rejected")
		vrt.Assert(lib.RefEq(got, want), "complete expression read as a different value")
	case 1: // cut
		c := 1 + vrt.Concrete(vrt.Choice("cut", len(toks)-1+1))
		vrt.Assume(c < len(toks))
		vrt.Assume(!toks[c-1].noCut)
		var stack []string
		for _, t := range toks[:c] {
			if t.open != "" {
				stack = append(stack, t.open)
			} else if t.close {
				stack = stack[:len(stack)-1]
			}
		}
		vrt.Assume(len(stack) > 0)
		// no cut inside a map between key and value, nor right after a comment that swallows nothing
		src := join(toks[:c])
		vrt.Observe("src", src)
		_, err := lisp.READ(src, nil, nil)
		vrt.Assert(err != nil, "incomplete expression accepted")
		exp := "expected '" + stack[len(stack)-1] + "', got EOF"
		vrt.Assert(errText(err) == exp, "incomplete expression not reported as "+exp)
		vrt.Assert(repl.VerifMultiLine(err), "REPL does not treat the incomplete-input error as incomplete: "+exp)
	case 2: // surplus closer
		src := join(toks) + " " + closers[vrt.Concrete(vrt.Choice("extra", 3))]
		vrt.Observe("src", src)
		_, err := lisp.READ(src, nil, nil)
		vrt.Assert(err != nil, "surplus closing bracket accepted")
		vrt.Assert(!repl.VerifMultiLine(err), "surplus closing bracket reported as incomplete input")
	case 3: // wrong closer somewhere
		var idx []int
		for i, t := range toks {
			if t.close {
				idx = append(idx, i)
			}
		}
		vrt.Assume(len(idx) > 0)
		at := idx[vrt.Concrete(vrt.Choice("at", len(idx)))]
		wrong := closers[vrt.Concrete(vrt.Choice("wrong", 3))]
		vrt.Assume(wrong != toks[at].text)
		mut := append([]tok{}, toks...)
		mut[at] = tok{text: wrong}
		src := join(mut)
		vrt.Observe("src", src)
		_, err := lisp.READ(src, nil, nil)
		vrt.Assert(err != nil, "wrong closing bracket accepted")
		vrt.Assert(!repl.VerifMultiLine(err), "wrong closing bracket reported as incomplete input")
	default: // two expressions
		t2, _ := atom("second")
		src := join(toks) + " " + t2.text
		vrt.Observe("src", src)
		_, err := lisp.READ(src, nil, nil)
		vrt.Assert(err != nil, "two expressions accepted as one")
		vrt.Assert(!repl.VerifMultiLine(err), "two expressions reported as incomplete input")
	}
	vrt.Reach("end")
}
