package c16

import (
	"testing"

	"verif.example/h/vrt"
)

func TestReplay(t *testing.T) {
	vrt.ReplayMain(map[string]func(){"Harness_cut": Harness_cut})
}
