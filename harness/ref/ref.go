// Package ref is the reference interpreter: a direct transcription of the
// language definition in the property statements (C01, C03, C12), sharing no
// code with /repo beyond the value types.  Error messages are never modelled,
// only error / no error, the thrown object and the ordered trace of effects.
package ref

import (
	. "github.com/jig/lisp/types"
)

// Thrown is an error in flight: a lisp value or a Go error.
type Thrown struct {
	Val   MalType // thrown lisp value (when GoErr == nil)
	GoErr error   // sentinel Go error raised by a builtin
	Kind  string  // "throw", "goerr", "unbound", "arity", "notfn", "form", "builtin"
}

type Scope struct {
	vars   map[string]MalType
	parent *Scope
}

func NewScope(parent *Scope) *Scope { return &Scope{vars: map[string]MalType{}, parent: parent} }

func (s *Scope) Lookup(name string) (MalType, bool) {
	for c := s; c != nil; c = c.parent {
		if v, ok := c.vars[name]; ok {
			return v, true
		}
	}
	return nil, false
}

func (s *Scope) Set(name string, v MalType) { s.vars[name] = v }

// Own reports the binding of name in this very scope.
func (s *Scope) Own(name string) (MalType, bool) { v, ok := s.vars[name]; return v, ok }

type Closure struct {
	Params  []string
	Rest    string // "" if none
	HasRest bool
	Body    []MalType
	Scope   *Scope
	IsMacro bool
}

type Builtin struct {
	Name string
	Fn   func(m *Machine, args []MalType) (MalType, *Thrown)
}

// Machine holds the effect trace and the evaluation fuel.
type Machine struct {
	Trace   []MalType
	Fuel    int
	OutOf   bool // fuel exhausted: the run is outside the bound
	Events  []MalType // forms in evaluation order (for the stepper check)
	Record  bool
	Unspec  bool // the definition does not say what happens here (e.g. = on functions)
}

func truthy(v MalType) bool {
	if v == nil {
		return false
	}
	if b, ok := v.(bool); ok {
		return b
	}
	return true
}

func seq(v MalType) ([]MalType, bool) {
	switch x := v.(type) {
	case List:
		return x.Val, true
	case Vector:
		return x.Val, true
	}
	return nil, false
}

func headIs(l []MalType, name string) bool {
	if len(l) == 0 {
		return false
	}
	s, ok := l[0].(Symbol)
	return ok && s.Val == name
}

func formErr() *Thrown { return &Thrown{Kind: "form"} }

// evalBody evaluates forms in order and returns the last value (nil when empty).
func (m *Machine) evalBody(forms []MalType, sc *Scope) (MalType, *Thrown) {
	var last MalType
	for _, f := range forms {
		v, th := m.Eval(f, sc)
		if th != nil {
			return nil, th
		}
		last = v
	}
	return last, nil
}

func (m *Machine) Apply(f MalType, args []MalType) (MalType, *Thrown) {
	switch fn := f.(type) {
	case Builtin:
		return fn.Fn(m, args)
	case *Closure:
		sc := NewScope(fn.Scope)
		if fn.HasRest {
			if len(args) < len(fn.Params) {
				return nil, &Thrown{Kind: "arity"}
			}
			sc.Set(fn.Rest, List{Val: append([]MalType{}, args[len(fn.Params):]...)})
		} else if len(args) != len(fn.Params) {
			return nil, &Thrown{Kind: "arity"}
		}
		for i, p := range fn.Params {
			sc.Set(p, args[i])
		}
		return m.evalBody(fn.Body, sc)
	}
	return nil, &Thrown{Kind: "notfn"}
}

func (m *Machine) macroOf(form MalType, sc *Scope) (*Closure, []MalType) {
	l, ok := form.(List)
	if !ok || len(l.Val) == 0 {
		return nil, nil
	}
	s, ok := l.Val[0].(Symbol)
	if !ok {
		return nil, nil
	}
	v, bound := sc.Lookup(s.Val)
	if !bound {
		return nil, nil
	}
	c, ok := v.(*Closure)
	if !ok || !c.IsMacro {
		return nil, nil
	}
	return c, l.Val[1:]
}

// Macroexpand expands until the head is not a macro.
func (m *Machine) Macroexpand(form MalType, sc *Scope) (MalType, *Thrown) {
	for {
		c, ops := m.macroOf(form, sc)
		if c == nil {
			return form, nil
		}
		m.Fuel--
		if m.Fuel < 0 {
			m.OutOf = true
			return nil, &Thrown{Kind: "fuel"}
		}
		r, th := m.Apply(c, ops)
		if th != nil {
			return nil, th
		}
		form = r
	}
}

// Quasi builds the value of a quasiquoted template.
func (m *Machine) Quasi(t MalType, sc *Scope) (MalType, *Thrown) {
	switch x := t.(type) {
	case List:
		if headIs(x.Val, "unquote") {
			if len(x.Val) < 2 {
				return nil, formErr()
			}
			return m.Eval(x.Val[1], sc)
		}
		out, th := m.quasiSeq(x.Val, sc)
		if th != nil {
			return nil, th
		}
		return List{Val: out}, nil
	case Vector:
		out, th := m.quasiSeq(x.Val, sc)
		if th != nil {
			return nil, th
		}
		return Vector{Val: out}, nil
	}
	return t, nil
}

func (m *Machine) quasiSeq(elems []MalType, sc *Scope) ([]MalType, *Thrown) {
	// the real evaluator builds the result from nested cons/concat calls, whose
	// arguments are evaluated left to right: so are the unquoted expressions here
	out := []MalType{}
	for _, e := range elems {
		if l, ok := e.(List); ok && headIs(l.Val, "splice-unquote") {
			if len(l.Val) < 2 {
				return nil, formErr()
			}
			v, th := m.Eval(l.Val[1], sc)
			if th != nil {
				return nil, th
			}
			s, ok := seq(v)
			if !ok {
				return nil, &Thrown{Kind: "builtin"}
			}
			out = append(out, s...)
			continue
		}
		v, th := m.Quasi(e, sc)
		if th != nil {
			return nil, th
		}
		out = append(out, v)
	}
	return out, nil
}

// Eval evaluates a form.
func (m *Machine) Eval(form MalType, sc *Scope) (MalType, *Thrown) {
	m.Fuel--
	if m.Fuel < 0 {
		m.OutOf = true
		return nil, &Thrown{Kind: "fuel"}
	}
	if m.Record {
		m.Events = append(m.Events, form)
	}
	switch x := form.(type) {
	case Symbol:
		v, ok := sc.Lookup(x.Val)
		if !ok {
			return nil, &Thrown{Kind: "unbound"}
		}
		return v, nil
	case Vector:
		out := make([]MalType, 0, len(x.Val))
		for _, e := range x.Val {
			v, th := m.Eval(e, sc)
			if th != nil {
				return nil, th
			}
			out = append(out, v)
		}
		return Vector{Val: out}, nil
	case HashMap:
		out := map[string]MalType{}
		for k, e := range x.Val {
			v, th := m.Eval(e, sc)
			if th != nil {
				return nil, th
			}
			out[k] = v
		}
		return HashMap{Val: out}, nil
	case List:
		return m.evalList(x, sc)
	}
	return form, nil
}

func (m *Machine) evalList(form List, sc *Scope) (MalType, *Thrown) {
	expanded, th := m.Macroexpand(form, sc)
	if th != nil {
		return nil, th
	}
	l, ok := expanded.(List)
	if !ok {
		// expansion is not a list: evaluate it (without counting it as a new event twice)
		return m.Eval(expanded, sc)
	}
	if len(l.Val) == 0 {
		return l, nil
	}
	a := l.Val
	if s, ok := a[0].(Symbol); ok {
		switch s.Val {
		case "def":
			if len(a) != 3 {
				return nil, formErr()
			}
			name, ok := a[1].(Symbol)
			v, th := m.Eval(a[2], sc)
			if th != nil {
				return nil, th
			}
			if !ok {
				return nil, formErr()
			}
			sc.Set(name.Val, v)
			return v, nil
		case "let":
			if len(a) < 2 {
				return nil, formErr()
			}
			binds, ok := seq(a[1])
			if !ok || len(binds)%2 != 0 {
				return nil, formErr()
			}
			inner := NewScope(sc)
			for i := 0; i < len(binds); i += 2 {
				name, ok := binds[i].(Symbol)
				if !ok {
					return nil, formErr()
				}
				v, th := m.Eval(binds[i+1], inner)
				if th != nil {
					return nil, th
				}
				inner.Set(name.Val, v)
			}
			return m.evalBody(a[2:], inner)
		case "quote":
			if len(a) < 2 {
				return nil, nil
			}
			return a[1], nil
		case "quasiquote":
			if len(a) < 2 {
				return nil, nil
			}
			return m.Quasi(a[1], sc)
		case "if":
			if len(a) < 3 {
				return nil, formErr()
			}
			c, th := m.Eval(a[1], sc)
			if th != nil {
				return nil, th
			}
			if truthy(c) {
				return m.Eval(a[2], sc)
			}
			if len(a) >= 4 {
				return m.Eval(a[3], sc)
			}
			return nil, nil
		case "do":
			return m.evalBody(a[1:], sc)
		case "fn":
			if len(a) < 2 {
				return nil, formErr()
			}
			ps, ok := seq(a[1])
			if !ok {
				return nil, formErr()
			}
			c := &Closure{Scope: sc, Body: a[2:]}
			for i := 0; i < len(ps); i++ {
				p, ok := ps[i].(Symbol)
				if !ok {
					return nil, formErr()
				}
				if p.Val == "&" {
					if i+1 >= len(ps) {
						return nil, formErr()
					}
					r, ok := ps[i+1].(Symbol)
					if !ok {
						return nil, formErr()
					}
					c.Rest, c.HasRest = r.Val, true
					break
				}
				c.Params = append(c.Params, p.Val)
			}
			return c, nil
		case "defmacro":
			if len(a) != 3 {
				return nil, formErr()
			}
			name, ok := a[1].(Symbol)
			if !ok {
				return nil, formErr()
			}
			v, th := m.Eval(a[2], sc)
			if th != nil {
				return nil, th
			}
			c, ok := v.(*Closure)
			if !ok {
				return nil, formErr()
			}
			mc := *c
			mc.IsMacro = true
			sc.Set(name.Val, &mc)
			return &mc, nil
		case "macroexpand":
			if len(a) < 2 {
				return nil, nil
			}
			return m.Macroexpand(a[1], sc)
		case "try":
			return m.evalTry(a[1:], sc)
		}
	}
	// application: head and arguments left to right, exactly once
	vals := make([]MalType, 0, len(a))
	for _, e := range a {
		v, th := m.Eval(e, sc)
		if th != nil {
			return nil, th
		}
		vals = append(vals, v)
	}
	return m.Apply(vals[0], vals[1:])
}

// evalTry: (try body... [(catch sym handler...)] [(finally f...)])
func (m *Machine) evalTry(rest []MalType, sc *Scope) (MalType, *Thrown) {
	body := rest
	var catchSym string
	var handler, finally []MalType
	hasCatch, hasFinally := false, false
	if n := len(body); n > 0 {
		if l, ok := body[n-1].(List); ok && headIs(l.Val, "finally") {
			hasFinally, finally, body = true, l.Val[1:], body[:n-1]
		}
	}
	if n := len(body); n > 0 {
		if l, ok := body[n-1].(List); ok && headIs(l.Val, "catch") {
			if len(l.Val) < 3 {
				return nil, formErr()
			}
			s, ok := l.Val[1].(Symbol)
			if !ok {
				return nil, formErr()
			}
			hasCatch, catchSym, handler, body = true, s.Val, l.Val[2:], body[:n-1]
		}
	}
	v, th := m.evalBody(body, sc)
	if th != nil && th.Kind == "fuel" {
		return nil, th
	}
	if th != nil && hasCatch {
		inner := NewScope(sc)
		if th.GoErr != nil {
			inner.Set(catchSym, th.GoErr)
		} else if th.Kind == "throw" {
			inner.Set(catchSym, th.Val)
		} else {
			inner.Set(catchSym, ErrorObject{Kind: th.Kind})
		}
		v, th = m.evalBody(handler, inner)
	}
	if hasFinally {
		// for side effects only; its own result and errors do not change the outcome
		saved := v
		m.evalBody(finally, sc)
		v = saved
	}
	return v, th
}

// ErrorObject stands for the message object of an evaluator-raised error
// (unbound symbol, arity, ...) when it is caught: its content is unspecified.
type ErrorObject struct{ Kind string }
