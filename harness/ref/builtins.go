package ref

import (
	. "github.com/jig/lisp/types"
)

// EqFn is the structural equality used by the reference "=" (set by the harness to lib.RefEq).
var EqFn func(a, b MalType) bool

func intArgs(args []MalType, n int) ([]int, bool) {
	if len(args) != n {
		return nil, false
	}
	out := make([]int, n)
	for i, a := range args {
		v, ok := a.(int)
		if !ok {
			return nil, false
		}
		out[i] = v
	}
	return out, true
}

// Globals returns the reference global scope with the builtin vocabulary.
func Globals() *Scope {
	g := NewScope(nil)
	bi := func(name string, fn func(m *Machine, a []MalType) (MalType, *Thrown)) {
		g.Set(name, Builtin{Name: name, Fn: fn})
	}
	berr := func() (MalType, *Thrown) { return nil, &Thrown{Kind: "builtin"} }
	bi("+", func(m *Machine, a []MalType) (MalType, *Thrown) {
		if v, ok := intArgs(a, 2); ok {
			return v[0] + v[1], nil
		}
		return berr()
	})
	bi("-", func(m *Machine, a []MalType) (MalType, *Thrown) {
		if v, ok := intArgs(a, 2); ok {
			return v[0] - v[1], nil
		}
		return berr()
	})
	bi("<", func(m *Machine, a []MalType) (MalType, *Thrown) {
		if v, ok := intArgs(a, 2); ok {
			return v[0] < v[1], nil
		}
		return berr()
	})
	bi("=", func(m *Machine, a []MalType) (MalType, *Thrown) {
		if len(a) != 2 {
			return berr()
		}
		if hasFunction(a[0]) || hasFunction(a[1]) {
			m.Unspec = true // equality of functions is not defined
			return false, nil
		}
		return EqFn(a[0], a[1]), nil
	})
	bi("list", func(m *Machine, a []MalType) (MalType, *Thrown) {
		return List{Val: append([]MalType{}, a...)}, nil
	})
	// (hash-map k v ...): keys are strings or keywords
	bi("hash-map", func(m *Machine, a []MalType) (MalType, *Thrown) {
		if len(a)%2 != 0 {
			return berr()
		}
		out := map[string]MalType{}
		for i := 0; i < len(a); i += 2 {
			k, ok := a[i].(string)
			if !ok {
				return berr()
			}
			out[k] = a[i+1]
		}
		return HashMap{Val: out}, nil
	})
	// (apply f a b ... coll): f applied to a, b, ... followed by the elements of the last argument (a list, a vector or nil)
	bi("apply", func(m *Machine, a []MalType) (MalType, *Thrown) {
		if len(a) < 2 {
			return berr()
		}
		args := append([]MalType{}, a[1:len(a)-1]...)
		switch last := a[len(a)-1].(type) {
		case nil:
		case List:
			args = append(args, last.Val...)
		case Vector:
			args = append(args, last.Val...)
		default:
			return berr()
		}
		return m.Apply(a[0], args)
	})
	bi("count", func(m *Machine, a []MalType) (MalType, *Thrown) {
		if len(a) != 1 {
			return berr()
		}
		switch x := a[0].(type) {
		case nil:
			return 0, nil
		case List:
			return len(x.Val), nil
		case Vector:
			return len(x.Val), nil
		case HashMap:
			return len(x.Val), nil
		}
		return berr()
	})
	bi("nil?", func(m *Machine, a []MalType) (MalType, *Thrown) {
		if len(a) != 1 {
			return berr()
		}
		return a[0] == nil, nil
	})
	bi("trace!", func(m *Machine, a []MalType) (MalType, *Thrown) {
		if len(a) != 1 {
			return berr()
		}
		m.Trace = append(m.Trace, a[0])
		return a[0], nil
	})
	bi("throw", func(m *Machine, a []MalType) (MalType, *Thrown) {
		if len(a) != 1 {
			return berr()
		}
		if e, ok := a[0].(error); ok {
			return nil, &Thrown{Kind: "goerr", GoErr: e}
		}
		return nil, &Thrown{Kind: "throw", Val: a[0]}
	})
	bi("cons", func(m *Machine, a []MalType) (MalType, *Thrown) {
		if len(a) != 2 {
			return berr()
		}
		s, ok := seq(a[1])
		if !ok {
			return berr()
		}
		return List{Val: append([]MalType{a[0]}, s...)}, nil
	})
	bi("first", func(m *Machine, a []MalType) (MalType, *Thrown) {
		if len(a) != 1 {
			return berr()
		}
		if a[0] == nil {
			return nil, nil
		}
		s, ok := seq(a[0])
		if !ok {
			return berr()
		}
		if len(s) == 0 {
			return nil, nil
		}
		return s[0], nil
	})
	bi("rest", func(m *Machine, a []MalType) (MalType, *Thrown) {
		if len(a) != 1 {
			return berr()
		}
		if a[0] == nil {
			return List{Val: []MalType{}}, nil
		}
		s, ok := seq(a[0])
		if !ok {
			return berr()
		}
		if len(s) == 0 {
			return List{Val: []MalType{}}, nil
		}
		return List{Val: append([]MalType{}, s[1:]...)}, nil
	})
	return g
}

func hasFunction(v MalType) bool {
	switch x := v.(type) {
	case *Closure, Builtin:
		return true
	case List:
		for _, e := range x.Val {
			if hasFunction(e) {
				return true
			}
		}
	case Vector:
		for _, e := range x.Val {
			if hasFunction(e) {
				return true
			}
		}
	case HashMap:
		for _, e := range x.Val {
			if hasFunction(e) {
				return true
			}
		}
	}
	return false
}
