package repl

// VerifMultiLine exposes the REPL's incomplete-input classification to the harness
// (file injected through a go/packages / go build overlay; it is not part of /repo).
func VerifMultiLine(err error) bool { return multiLine(err) }
