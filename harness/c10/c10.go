// Package c10: futures run once, give every reader the same outcome, report status consistently.
package c10

import (
	"context"
	"errors"

	"github.com/jig/lisp/env"
	"github.com/jig/lisp/lib/concurrent"
	"github.com/jig/lisp/lib/core"
	. "github.com/jig/lisp/types"
	"verif.example/h/vrt"
)

var Base EnvType

func Setup() {
	Base = env.NewEnv()
	core.Load(Base)
	concurrent.Load(Base)
}

func builtin(name string) Func {
	f, err := Base.Get(Symbol{Val: name})
	if err != nil {
		panic(err)
	}
	return f.(Func)
}

var errBody = errors.New("body failed")

// observation of one client operation
type obs struct {
	kind          int // 0 deref, 1 done?, 2 cancelled?, 3 cancel, 4 deref under a cancelled context
	val           MalType
	err           error
	flag          bool
	inv, ret      int
	bodyWasHeld   bool // the body was provably still running when the operation was invoked and when it returned
}

func experiment(T, K int, bodyKind int, kinds [][]int, bodyVal int) {
	entered := make(chan int, 8)    // one token per body entry
	release := make(chan struct{})  // closed to let a held body finish
	bodyCtxDone := make(chan bool, 1)
	var bodyCtx context.Context // the context the body was given (written before the body signals its entry)
	fn := MalFunc{
		GenEnv: func(EnvType, MalType, MalType) (EnvType, error) { return nil, nil },
		Eval: func(ctx context.Context, _ MalType, _ EnvType) (MalType, error) {
			bodyCtx = ctx
			entered <- 1
			switch bodyKind {
			case 0:
				return bodyVal, nil
			case 1:
				return nil, errBody
			case 2: // waits for cancellation, then fails
				<-ctx.Done()
				bodyCtxDone <- true
				return nil, errBody
			default: // ignores cancellation until released
				<-release
				select {
				case <-ctx.Done():
					bodyCtxDone <- true
				default:
					bodyCtxDone <- false
				}
				return bodyVal, nil
			}
		},
	}
	fv, ferr := builtin("future-call").Fn(context.Background(), []MalType{fn})
	vrt.Assert(ferr == nil, "future-call failed")
	held := bodyKind == 3
	results := make([][]obs, T)
	done := make(chan int, T)
	for t := 0; t < T; t++ {
		t := t
		go func() {
			for k := 0; k < K; k++ {
				o := obs{kind: kinds[t][k], inv: vrt.Tick(), bodyWasHeld: held}
				ctx := context.Background()
				switch o.kind {
				case 0:
					if bodyKind >= 2 {
						// the body does not finish by itself: a plain deref would wait for ever (by design)
						o.kind = 1
						o.flag = boolOf(builtin("future-done?").Fn(ctx, []MalType{fv}))
					} else {
						o.val, o.err = builtin("deref").Fn(ctx, []MalType{fv})
					}
				case 1:
					o.flag = boolOf(builtin("future-done?").Fn(ctx, []MalType{fv}))
				case 2:
					o.flag = boolOf(builtin("future-cancelled?").Fn(ctx, []MalType{fv}))
				case 3:
					o.flag = boolOf(builtin("future-cancel").Fn(ctx, []MalType{fv}))
				default:
					c2, cancel := context.WithCancel(ctx)
					cancel()
					o.val, o.err = builtin("deref").Fn(c2, []MalType{fv})
				}
				o.ret = vrt.Tick()
				results[t] = append(results[t], o)
			}
			done <- t
		}()
	}
	for t := 0; t < T; t++ {
		<-done
	}
	// let a held body finish, then make sure the body ended
	close(release)
	if bodyKind == 2 {
		// nobody may have cancelled: cancel now so that the body ends
		builtin("future-cancel").Fn(context.Background(), []MalType{fv})
	}
	fin, finErr := builtin("deref").Fn(context.Background(), []MalType{fv})
	entries := len(entered)
	vrt.Assert(entries == 1, "future body was not entered exactly once")
	// every reader gets the same outcome
	for t := 0; t < T; t++ {
		for _, o := range results[t] {
			if o.kind == 0 {
				vrt.Assert((o.err == nil) == (finErr == nil), "two derefs of one future disagree on success/failure")
				if o.err == nil && finErr == nil {
					ov, ok1 := o.val.(int)
					fv2, ok2 := fin.(int)
					vrt.Assert(ok1 && ok2 && vrt.EqInt(ov, fv2) && vrt.EqInt(fv2, bodyVal), "two derefs of one future returned different values (or not the body's value)")
				}
			}
			if o.kind == 4 {
				vrt.Assert(o.err != nil || o.val == fin, "deref under an ended context returned a wrong value")
			}
		}
	}
	// per-observer consistency
	anyCancelTrue := false
	for t := 0; t < T; t++ {
		sawDone, sawCancelled, derefReturned := false, false, false
		for _, o := range results[t] {
			switch o.kind {
			case 0:
				derefReturned = true
			case 1:
				vrt.Assert(!(sawDone && !o.flag), "future-done? went back from true to false")
				vrt.Assert(!(derefReturned && !o.flag), "future-done? is false although a deref of the future has already returned to this thread")
				sawDone = sawDone || o.flag
			case 2:
				vrt.Assert(!(sawCancelled && !o.flag), "future-cancelled? went back from true to false")
				sawCancelled = sawCancelled || o.flag
			case 3:
				if o.flag {
					anyCancelTrue = true
					sawCancelled = true
				}
				if derefReturned && bodyKind <= 1 {
					// completed without having been cancelled before this thread saw the outcome...
				}
				if o.bodyWasHeld {
					vrt.Assert(o.flag, "future-cancel on a still running future did not return true")
				}
			}
		}
	}
	// cancel on a future that completed without having been cancelled returns false and changes nothing:
	// observable when the cancel was issued after a deref had returned and nobody cancelled before
	for t := 0; t < T; t++ {
		derefRet := 0
		for _, o := range results[t] {
			if o.kind == 0 && derefRet == 0 {
				derefRet = o.ret
			}
			if o.kind == 3 && derefRet != 0 && o.inv > derefRet {
				earlier := false
				for u := 0; u < T; u++ {
					for _, p := range results[u] {
						if p.kind == 3 && p.inv < o.ret && !(u == t && p.inv == o.inv) {
							earlier = true
						}
					}
				}
				if !earlier {
					vrt.Assert(!o.flag, "future-cancel returned true on a future that had completed without being cancelled")
				}
			}
		}
	}
	// the same status rules across threads, ordered by the logical clock: an operation invoked after
	// another one had returned sees at least what that one saw
	for t := 0; t < T; t++ {
		for _, o := range results[t] {
			for u := 0; u < T; u++ {
				for _, p := range results[u] {
					if p.ret >= o.inv {
						continue
					}
					if o.kind == 1 && !o.flag {
						vrt.Assert(p.kind != 0, "future-done? is false although a deref of the future had already returned")
						vrt.Assert(!(p.kind == 1 && p.flag), "future-done? went back from true to false (as seen by two threads)")
					}
					if o.kind == 2 && !o.flag {
						vrt.Assert(!(p.kind == 2 && p.flag), "future-cancelled? went back from true to false (as seen by two threads)")
						vrt.Assert(!(p.kind == 3 && p.flag), "future-cancelled? is false after a future-cancel that returned true")
					}
				}
			}
			if o.kind == 3 && o.flag {
				// true only on a future that was still running: not after any deref had returned, unless somebody cancelled before
				derefBefore, cancelBefore := false, false
				for u := 0; u < T; u++ {
					for _, p := range results[u] {
						if p.kind == 0 && p.ret < o.inv {
							derefBefore = true
						}
						if p.kind == 3 && p.inv < o.ret && !(u == t && p.inv == o.inv) {
							cancelBefore = true
						}
					}
				}
				vrt.Assert(!derefBefore || cancelBefore, "future-cancel returned true on a future whose outcome had already been delivered to a deref")
			}
		}
	}
	if !anyCancelTrue && bodyKind != 2 && bodyCtx != nil {
		// no future-cancel returned true: "returns false and changes nothing" includes the body's context,
		// under which work started by the body may still be running
		vrt.Assert(bodyCtx.Err() == nil, "the body's context is cancelled although no future-cancel returned true")
	}
	if held && anyCancelTrue {
		vrt.Assert(<-bodyCtxDone, "future-cancel returned true but the body's context was not cancelled")
		vrt.Assert(boolOf(builtin("future-cancelled?").Fn(context.Background(), []MalType{fv})), "future-cancelled? is false after a successful cancel")
	}
}

func boolOf(v MalType, err error) bool {
	b, _ := v.(bool)
	return err == nil && b
}

// Harness_future: T client threads x K operations against one future, all interleavings.
func Harness_future() {
	T := vrt.Param("threads", 2)
	K := vrt.Param("ops", 2)
	bodyKind := vrt.Concrete(vrt.Choice("body", 4))
	kinds := make([][]int, T)
	for t := 0; t < T; t++ {
		kinds[t] = make([]int, K)
		for k := 0; k < K; k++ {
			kinds[t][k] = vrt.Concrete(vrt.Choice("t"+string(rune('0'+t))+"k"+string(rune('0'+k)), 5))
		}
	}
	bodyVal := vrt.Int("value") // the body's result: an arbitrary integer
	reps := 1
	if !vrt.Symbolic() {
		reps = 300
	}
	for r := 0; r < reps; r++ {
		experiment(T, K, bodyKind, kinds, bodyVal)
	}
	vrt.Reach("end")
}

// Harness_future2: the same experiment under a second set of bounds.
func Harness_future2() { Harness_future() }
