package c10

import (
	"testing"

	"verif.example/h/vrt"
)

func TestReplay(t *testing.T) {
	Setup()
	vrt.ReplayMain(map[string]func(){"Harness_future": Harness_future, "Harness_future2": Harness_future2})
}
