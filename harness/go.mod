module verif.example/h

go 1.23

require github.com/jig/lisp v0.0.0

replace github.com/jig/lisp => /repo
