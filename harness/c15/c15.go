// Package c15: placeholders are substituted as data and survive the preamble transport.
package c15

import (
	"github.com/jig/lisp"
	"github.com/jig/lisp/reader"
	. "github.com/jig/lisp/types"
	"verif.example/h/lib"
	"verif.example/h/vrt"
)

var names = []string{"$A", "$B1", "$a-b_c"}

const strAscii = "a\"\\; ()[]{}:$'"

// units that make strings look like code, preamble lines, JSON, other placeholders
var strMulti = []string{"\n", "¬", "ʞ", "$A", ";; $A 1", "{\"", "\"}", "\n\n"}

var ints = []int{0, 1, -7, 1000000}

func value(tag string, d int) MalType {
	nk := 6
	if d > 0 {
		nk = 9
	}
	kind := vrt.Concrete(vrt.Choice(tag+"/k", nk))
	if vrt.Param("stringsonly", 0) == 1 {
		vrt.Assume(kind == 3)
	}
	switch kind {
	case 0:
		return nil
	case 1:
		return vrt.Bool(tag + "/b")
	case 2:
		return ints[vrt.Concrete(vrt.Choice(tag+"/i", len(ints)))]
	case 3:
		s := lib.RuneStr(tag+"/s", vrt.Param("strlen", 2), strAscii, strMulti)
		if vrt.Param("jsonish", 0) == 1 {
			// a string shaped like a JSON object (printed in raw form by AddPreamble) around the symbolic content
			return "{\"" + s + []string{"\"}", "}"}[vrt.Concrete(vrt.Choice(tag+"/close", 2))]
		}
		vrt.Assume(!(len(s) >= 2 && s[0] == 0xCA && s[1] == 0x9E)) // that would be a keyword
		return s
	case 4:
		return NewKeyword(string([]byte{vrt.ByteIn(tag+"/kw", "ab")}))
	case 5:
		return Symbol{Val: string([]byte{vrt.ByteIn(tag+"/sy", "ab+")})}
	case 6:
		return List{Val: []MalType{value(tag+"/0", d-1), value(tag+"/1", d-1)}}
	case 7:
		return Vector{Val: []MalType{value(tag+"/0", d-1)}}
	default:
		return HashMap{Val: map[string]MalType{NewKeyword("k"): value(tag+"/v", d-1)}}
	}
}

func sym(n string) MalType      { return Symbol{Val: n} }
func lst(xs ...MalType) MalType { return List{Val: xs} }

// source templates with the AST they denote for values a, b
func template(k int, a, b MalType) (string, MalType) {
	switch k {
	case 0:
		return "$A", a
	case 1:
		return "(f $A $B1)", lst(sym("f"), a, b)
	case 2:
		return "'($A [$B1 {:k $A}])", lst(sym("quote"), lst(a, Vector{Val: []MalType{b, HashMap{Val: map[string]MalType{NewKeyword("k"): a}}}}))
	case 3:
		return "(str \"$A\" $A ¬$B1¬)", lst(sym("str"), "$A", a, "$B1")
	case 4:
		return "(do ;; $A 1\n $A ; $B1\n)", lst(sym("do"), a)
	case 5:
		return "(g $A $a-b_c $C)", lst(sym("g"), a, b, nil) // $C has no value: nil
	case 6:
		return "\n\n$B1", b
	case 7:
		return ";; a comment, not a preamble line\n($A)", lst(a)
	case 8:
		// the source's own first line looks like a preamble line: it is a comment of the source
		return ";; $A 10\n(list $A)", lst(sym("list"), a)
	case 9:
		return "(str ¬a  \nb¬ $A)", lst(sym("str"), "a  \nb", a)
	default:
		// inside a set literal (members must be strings or keywords: the caller constrains $A)
		as, _ := a.(string)
		return "(list #{$A :z} [#{$A}])", lst(sym("list"), Set{Val: map[string]struct{}{as: {}, NewKeyword("z"): {}}}, Vector{Val: []MalType{Set{Val: map[string]struct{}{as: {}}}}})
	}
}

// Harness_transport: READWithPreamble(AddPreamble(src, m)) and Read_str(src, m) both equal the template's AST.
func Harness_transport() {
	d := vrt.Param("depth", 1)
	a := value("a", d)
	b := value("b", d)
	k := vrt.Concrete(vrt.Choice("template", vrt.Param("templates", 11)))
	if k == 10 {
		_, isStr := a.(string)
		vrt.Assume(isStr)
	}
	m := map[string]MalType{"$A": a}
	if k == 5 {
		m["$a-b_c"] = b
	} else {
		m["$B1"] = b
	}
	if (k == 8 || k == 9) && vrt.Bool("emptymap") {
		// no placeholder has a value: every placeholder reads as nil
		m = map[string]MalType{}
		a = nil
	}
	src, want := template(k, a, b)
	vrt.Observe("template", k)
	// direct substitution by the reader
	r2, err2 := reader.Read_str(src, nil, &HashMap{Val: m})
	vrt.Assert(err2 == nil, "reading with placeholder values failed")
	vrt.Assert(lib.RefEq(r2, want), "Read_str with placeholder values differs from the source with each placeholder replaced by its value")
	// transport through the preamble
	txt, errA := lisp.AddPreamble(src, m)
	vrt.Assert(errA == nil, "AddPreamble failed")
	vrt.Observe("~text", txt)
	var r1 MalType
	var err1 error
	panicked, msg := vrt.NoPanic(func() { r1, err1 = lisp.READWithPreamble(txt, nil, nil) })
	vrt.Assert(!panicked, "READWithPreamble panicked: "+msg)
	class := ""
	if hasRaw(a) || hasRaw(b) {
		class = " [a value is a string printed in raw form that contains a newline]"
	}
	vrt.Assert(err1 == nil, "READWithPreamble rejects the text AddPreamble produced"+class)
	vrt.Assert(lib.RefEq(r1, want), "READWithPreamble(AddPreamble(src, m)) differs from the source with each placeholder replaced by its value"+class)
	vrt.Reach("end")
}

// hasRaw: some string in v starts with {" and ends with } (printed in raw form) and contains a newline.
func hasRaw(v MalType) bool {
	switch x := v.(type) {
	case string:
		if len(x) >= 3 && x[0] == '{' && x[1] == '"' && x[len(x)-1] == '}' {
			for i := 0; i < len(x); i++ {
				if x[i] == '\n' {
					return true
				}
			}
		}
	case List:
		for _, e := range x.Val {
			if hasRaw(e) {
				return true
			}
		}
	case Vector:
		for _, e := range x.Val {
			if hasRaw(e) {
				return true
			}
		}
	case HashMap:
		for _, e := range x.Val {
			if hasRaw(e) {
				return true
			}
		}
	}
	return false
}

// Harness_strings: the same check focused on string values (longer strings, fewer templates).
func Harness_strings() { Harness_transport() }

// Harness_jsonvalues: the same check on string values shaped like JSON objects (parameter jsonish=1).
func Harness_jsonvalues() { Harness_transport() }
