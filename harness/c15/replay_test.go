package c15

import (
	"testing"

	"verif.example/h/vrt"
)

func TestReplay(t *testing.T) {
	vrt.ReplayMain(map[string]func(){"Harness_transport": Harness_transport, "Harness_strings": Harness_strings, "Harness_jsonvalues": Harness_jsonvalues})
}
