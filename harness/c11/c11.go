// Package c11: concurrent evaluations on one environment are race-free and isolated.
package c11

import (
	"context"

	"github.com/jig/lisp"
	. "github.com/jig/lisp/types"
	"verif.example/h/lib"
	"verif.example/h/vrt"
)

var (
	Env   EnvType
	Solo  [][]MalType // Solo[template][0]: result of the template run alone (prefix s)
	Progs [][]MalType // Progs[prefix][template]: the AST for thread prefix a / b
	Expected []MalType
)

// templates, %P is replaced by the thread's own name prefix
var templates = []string{
	"(do (def %P-x 5) (def %P-y (+ %P-x 1)) (list %P-x %P-y))",
	"(let [g (gensym) h (gensym)] (list (symbol? g) (= g h)))",
	"(shared-memo 2)",
	"(deref (future (+ 1 2)))",
	"(try %O-x (catch e :unbound))",
	// the catch variable holds this evaluation's own thrown object while its handler runs
	"(try (throw (quote %P-tag)) (catch e (do (shared-memo 2) (= e (quote %P-tag)))))",
	"(do (def %P-m (memoize (fn [n] (+ n 1)))) (list (%P-m 2) (%P-m 2)))", // same argument as the shared memoized function: each has its own cache
	"(let [v 3 w (+ v 1)] (list v w))",
	"(do (def %P-f (fn [n] (if (< n 1) 0 (+ n (%P-f (- n 1)))))) (%P-f 3))",
	"(cond false 1 (= 1 1) (or nil 7))",
	"(try (throw 1) (catch e (+ e 1)))",
}

// what each template returns by the definition of the language (the solo run must agree with it too)
var expected = []string{"(5 6)", "(true false)", "12", "3", ":unbound", "true", "(3 3)", "(3 4)", "6", "7", "2"}

// names the templates bind locally (let variables, parameters, catch variables): never visible in the shared environment
var localNames = []string{"g", "h", "e", "v", "w", "n", "k"}

const observeOther = 4 // index of the template that looks at the other evaluation's global

func subst(t, prefix string) string {
	other := "a"
	if prefix == "a" {
		other = "b"
	}
	out := ""
	for i := 0; i < len(t); i++ {
		if t[i] == '%' && i+1 < len(t) && t[i+1] == 'P' {
			out += prefix
			i++
		} else if t[i] == '%' && i+1 < len(t) && t[i+1] == 'O' {
			out += other
			i++
		} else {
			out += string(t[i])
		}
	}
	return out
}

func Setup() {
	Env = lib.StdEnv()
	ctx := context.Background()
	if _, err := lisp.REPL(ctx, Env, "(def shared-memo (memoize (fn [n] (+ n 10))))", nil); err != nil {
		panic(err)
	}
	for _, prefix := range []string{"a", "b"} {
		var asts []MalType
		for _, t := range templates {
			ast, err := lisp.READ(subst(t, prefix), nil, Env)
			if err != nil {
				panic(err)
			}
			asts = append(asts, ast)
		}
		Progs = append(Progs, asts)
	}
	for _, x := range expected {
		v, err := lisp.READ(x, nil, Env)
		if err != nil {
			panic(err)
		}
		Expected = append(Expected, v)
	}
	for _, t := range templates {
		ast, err := lisp.READ(subst(t, "s"), nil, Env)
		if err != nil {
			panic(err)
		}
		v, err := lisp.EVAL(ctx, ast, Env)
		if err != nil {
			panic(err)
		}
		Solo = append(Solo, []MalType{v})
	}
}

// Harness_pair: two evaluations at the same time on the shared environment.
func Harness_pair() {
	n := vrt.Param("templates", len(templates))
	ka := vrt.Concrete(vrt.Choice("a", n))
	kb := vrt.Concrete(vrt.Choice("b", n))
	vrt.Observe("a", ka)
	vrt.Observe("b", kb)
	reps := 1
	if !vrt.Symbolic() {
		reps = 100
	}
	for r := 0; r < reps; r++ {
		experiment(ka, kb)
	}
	vrt.Reach("end")
}

func experiment(ka, kb int) {
	type res struct {
		v   MalType
		err error
	}
	results := make([]res, 2)
	done := make(chan int, 2)
	ks := []int{ka, kb}
	for t := 0; t < 2; t++ {
		t := t
		go func() {
			v, err := lisp.EVAL(context.Background(), Progs[t][ks[t]], Env)
			results[t] = res{v, err}
			done <- t
		}()
	}
	<-done
	<-done
	for _, name := range localNames {
		_, gerr := Env.Get(Symbol{Val: name})
		vrt.Assert(gerr != nil, "a local binding of an evaluation is visible in the shared environment afterwards: "+name)
	}
	for t := 0; t < 2; t++ {
		k := ks[t]
		vrt.Assert(results[t].err == nil, "an evaluation failed when run together with another one: "+templates[k])
		if k == observeOther {
			// the other evaluation's global is seen entirely (its value 5) or not at all
			v := results[t].v
			vrt.Assert(lib.RefEq(v, NewKeyword("unbound")) || lib.RefEq(v, 5), "a global of another evaluation was observed half-defined")
			continue
		}
		vrt.Assert(lib.RefEq(results[t].v, Solo[k][0]), "an evaluation returns something else than when run alone: "+templates[k])
		vrt.Assert(lib.RefEq(results[t].v, Expected[k]), "an evaluation on the shared environment returns something else than the language prescribes: "+templates[k])
	}
}

// ---- gensym under concurrency: temporaries of one evaluation are distinct whatever the other evaluation does

var Gensym MalType

func SetupGensym() {
	Setup()
	g, err := Env.Get(Symbol{Val: "gensym"})
	if err != nil {
		panic(err)
	}
	Gensym = g
}

// Harness_gensym: one evaluation takes three temporaries from the library's gensym while another takes
// one or two, all interleavings within the preemption bound; the temporaries of each evaluation must be
// pairwise distinct, as they are when it runs alone.  (gensym is applied directly: the evaluation of a
// surrounding let form adds only scheduling points.)
func Harness_gensym() {
	reps := 1
	if !vrt.Symbolic() {
		reps = 200
	}
	counts := []int{3, 1 + vrt.Concrete(vrt.Choice("other", 2))}
	for r := 0; r < reps; r++ {
		results := make([][]MalType, 2)
		errs := make([]error, 2)
		done := make(chan int, 2)
		for t := 0; t < 2; t++ {
			t := t
			go func() {
				for k := 0; k < counts[t]; k++ {
					v, err := Apply(context.Background(), Gensym, nil)
					if err != nil {
						errs[t] = err
					}
					results[t] = append(results[t], v)
				}
				done <- t
			}()
		}
		<-done
		<-done
		for t := 0; t < 2; t++ {
			vrt.Assert(errs[t] == nil, "gensym failed when two evaluations run at the same time")
			for a := 0; a < len(results[t]); a++ {
				_, isSym := results[t][a].(Symbol)
				vrt.Assert(isSym, "gensym did not return a symbol")
				for b := a + 1; b < len(results[t]); b++ {
					vrt.Assert(!lib.RefEq(results[t][a], results[t][b]), "two gensym temporaries of one evaluation are the same symbol when another evaluation runs at the same time")
				}
			}
		}
	}
	vrt.Reach("end")
}
