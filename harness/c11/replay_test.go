package c11

import (
	"testing"

	"verif.example/h/vrt"
)

func TestReplay(t *testing.T) {
	Setup()
	vrt.ReplayMain(map[string]func(){"Harness_pair": Harness_pair})
}
