package c11

import (
	"testing"

	"verif.example/h/vrt"
)

func TestReplay(t *testing.T) {
	SetupGensym()
	vrt.ReplayMain(map[string]func(){"Harness_pair": Harness_pair, "Harness_gensym": Harness_gensym})
}
