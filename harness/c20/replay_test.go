package c20

import (
	"testing"

	"verif.example/h/vrt"
)

func TestReplay(t *testing.T) {
	Setup()
	vrt.ReplayMain(map[string]func(){"Harness_contract": Harness_contract})
}
