// Package c20: reflectively bound Go functions are called only within their declared contract.
package c20

import (
	"context"
	"errors"

	"github.com/jig/lisp"
	"github.com/jig/lisp/env"
	"github.com/jig/lisp/lib/call"
	"github.com/jig/lisp/lib/core"
	. "github.com/jig/lisp/types"
	"verif.example/h/lib"
	"verif.example/h/vrt"
)

type T struct{ N int }

type ctxKey struct{}

var (
	Sentinel = errors.New("sentinel")

	// what the bound function observed
	Entered int
	GotArgs []MalType
	GotCtx  context.Context
	Behave  int // 0 value, 1 error, 2 value+error, 3 panic(error), 4 panic(non-error)
)

func enter(ctx context.Context, args ...MalType) {
	Entered++
	GotArgs = args
	GotCtx = ctx
	switch Behave {
	case 3:
		panic(Sentinel)
	case 4:
		panic(42)
	}
}

func result() (MalType, error) {
	switch Behave {
	case 1:
		return nil, Sentinel
	case 2:
		return "value", Sentinel
	}
	return "value", nil
}

func errOnly() error {
	if Behave == 1 || Behave == 2 {
		return Sentinel
	}
	return nil
}

// the signature shapes
func Fn_Zero() (MalType, error)                         { enter(nil); return result() }
func Fn_One(a MalType) (MalType, error)                 { enter(nil, a); return result() }
func Fn_Two(a, b MalType) (MalType, error)              { enter(nil, a, b); return result() }
func Fn_Var(a ...MalType) (MalType, error)              { enter(nil, a...); return result() }
func Fn_OneVar(a MalType, r ...MalType) (MalType, error) { enter(nil, append([]MalType{a}, r...)...); return result() }
func Fn_Int(a int) (MalType, error)                     { enter(nil, a); return result() }
func Fn_StrInt(a string, b int) (MalType, error)        { enter(nil, a, b); return result() }
func Fn_Ptr(a *T) (MalType, error)                      { enter(nil, a); return result() }
func Fn_NoResult(a MalType)                             { enter(nil, a) }
func Fn_ErrOnly(a MalType) error                        { enter(nil, a); return errOnly() }
func Ctx_Zero(ctx context.Context) (MalType, error)     { enter(ctx); return result() }
func Ctx_One(ctx context.Context, a MalType) (MalType, error) {
	enter(ctx, a)
	return result()
}
func Ctx_Var(ctx context.Context, a ...MalType) (MalType, error) { enter(ctx, a...); return result() }
func Ctx_Int(ctx context.Context, a int) (MalType, error)        { enter(ctx, a); return result() }
func Ctx_NoResult(ctx context.Context, a MalType)                { enter(ctx, a) }
func Ctx_ErrOnly(ctx context.Context, a MalType) error           { enter(ctx, a); return errOnly() }

type shape struct {
	fn       MalType
	name     string // expected lisp name
	ctx      bool
	variadic bool
	fixed    int      // number of fixed lisp parameters
	kinds    []string // kinds of the fixed parameters: "any", "int", "string", "ptr"
	results  int      // 0, 1 (error only), 2
}

var shapes = []shape{
	{Fn_Zero, "fn-zero", false, false, 0, nil, 2},
	{Fn_One, "fn-one", false, false, 1, []string{"any"}, 2},
	{Fn_Two, "fn-two", false, false, 2, []string{"any", "any"}, 2},
	{Fn_Var, "fn-var", false, true, 0, nil, 2},
	{Fn_OneVar, "fn-onevar", false, true, 1, []string{"any"}, 2},
	{Fn_Int, "fn-int", false, false, 1, []string{"int"}, 2},
	{Fn_StrInt, "fn-strint", false, false, 2, []string{"string", "int"}, 2},
	{Fn_Ptr, "fn-ptr", false, false, 1, []string{"ptr"}, 2},
	{Fn_NoResult, "fn-noresult", false, false, 1, []string{"any"}, 0},
	{Fn_ErrOnly, "fn-erronly", false, false, 1, []string{"any"}, 1},
	{Ctx_Zero, "ctx-zero", true, false, 0, nil, 2},
	{Ctx_One, "ctx-one", true, false, 1, []string{"any"}, 2},
	{Ctx_Var, "ctx-var", true, true, 0, nil, 2},
	{Ctx_Int, "ctx-int", true, false, 1, []string{"int"}, 2},
	{Ctx_NoResult, "ctx-noresult", true, false, 1, []string{"any"}, 0},
	{Ctx_ErrOnly, "ctx-erronly", true, false, 1, []string{"any"}, 1},
}

var Base EnvType

func Setup() {
	Base = env.NewEnv()
	core.Load(Base)
}

// argument values of every kind
func argValue(tag string) (MalType, string) {
	switch vrt.Concrete(vrt.Choice(tag, 6)) {
	case 0:
		return nil, "nil"
	case 1:
		return vrt.Int(tag + "/i"), "int"
	case 2:
		return "s", "string"
	case 3:
		return List{Val: []MalType{1}}, "list"
	case 4:
		return &T{N: 7}, "ptr"
	default:
		return Sentinel, "error"
	}
}

func assignable(kind, param string) bool {
	switch param {
	case "any":
		return true
	case "int":
		return kind == "int"
	case "string":
		return kind == "string"
	case "ptr":
		return kind == "ptr"
	}
	return false
}

// Harness_contract: registration, count/type gate, argument passing, result mapping, panic conversion.
func Harness_contract() {
	sh := shapes[vrt.Concrete(vrt.Choice("shape", len(shapes)))]
	ns := env.NewSubordinateEnv(Base)
	// declared bounds: none, (min) or (min,max), values in [-1,4]
	nb := vrt.Concrete(vrt.Choice("nbounds", 3))
	lo := vrt.IntRange("min", -1, 4)
	hi := vrt.IntRange("max", -1, 4)
	override := vrt.Bool("override")
	name := sh.name
	regPanicked, _ := vrt.NoPanic(func() {
		var bounds []int
		if nb >= 1 {
			bounds = append(bounds, lo)
		}
		if nb == 2 {
			bounds = append(bounds, hi)
		}
		if override {
			name = "my-name!"
			call.CallOverrideFN(ns, name, sh.fn, bounds...)
		} else {
			call.Call(ns, sh.fn, bounds...)
		}
	})
	// registration contract: explicit bounds need a variadic function, min<=max, no negatives
	wantRegPanic := false
	if nb > 0 && !sh.variadic {
		wantRegPanic = true
	}
	if nb == 2 && lo > hi {
		wantRegPanic = true
	}
	if nb >= 1 && lo < 0 {
		wantRegPanic = true
	}
	if nb == 2 && hi < 0 {
		wantRegPanic = true
	}
	vrt.Observe("shape", sh.name)
	vrt.Assert(regPanicked == wantRegPanic, "registration of "+sh.name+": panics differ from the documented conditions")
	if regPanicked {
		vrt.Reach("end")
		return
	}
	f, gerr := ns.Get(Symbol{Val: name})
	vrt.Assert(gerr == nil, "function is not registered under its hyphenated lower-case name "+name)
	// the call
	argc := vrt.Concrete(vrt.Choice("argc", 5))
	args := make([]MalType, argc)
	kinds := make([]string, argc)
	for i := range args {
		args[i], kinds[i] = argValue("a" + string(rune('0'+i)))
	}
	Behave = vrt.Concrete(vrt.Choice("behave", 5))
	Entered, GotArgs, GotCtx = 0, nil, nil
	ctx := context.WithValue(context.Background(), ctxKey{}, "caller")
	var res MalType
	var err error
	callPanicked, msg := vrt.NoPanic(func() { res, err = f.(Func).Fn(ctx, args) })
	vrt.Assert(!callPanicked, "a panic escaped the binder: "+msg)
	// expected gate (bounds are in lisp arguments)
	minA, maxA := sh.fixed, sh.fixed
	if sh.variadic {
		maxA = 1 << 30
	}
	if nb >= 1 {
		minA = lo
		if minA < sh.fixed {
			minA = sh.fixed
		}
	}
	if nb == 2 {
		maxA = hi
	}
	okCount := argc >= minA && argc <= maxA
	okTypes := true
	for i := 0; i < argc && i < sh.fixed; i++ {
		if !assignable(kinds[i], sh.kinds[i]) {
			okTypes = false
		}
	}
	if okCount && okTypes {
		vrt.Assert(Entered == 1, sh.name+": not invoked although count and types are within the contract")
		vrt.Assert(len(GotArgs) == argc, sh.name+": received a different number of arguments")
		for i := range args {
			if i < len(GotArgs) {
				vrt.Assert(lib.RefEq(GotArgs[i], args[i]) || GotArgs[i] == args[i], sh.name+": received a different argument (nil must arrive as the zero interface value)")
			}
		}
		if sh.ctx {
			vrt.Assert(GotCtx != nil && GotCtx.Value(ctxKey{}) == "caller", sh.name+": did not receive the caller's context")
		}
		// result mapping
		switch Behave {
		case 3:
			vrt.Assert(err != nil && errors.Is(err, Sentinel), sh.name+": a panic(error) is not an error wrapping the original")
		case 4:
			ev, ok := err.(interface{ ErrorValue() MalType })
			vrt.Assert(err != nil && ok && lib.RefEq(ev.ErrorValue(), 42), sh.name+": a panic(non-error) is not an error carrying the value")
		default:
			wantErr := (Behave == 1 || Behave == 2) && sh.results > 0
			vrt.Assert((err != nil) == wantErr, sh.name+": error result mapped wrongly")
			if wantErr {
				vrt.Assert(errors.Is(err, Sentinel), sh.name+": returned error lost")
			} else if sh.results == 2 {
				vrt.Assert(res == "value", sh.name+": returned value lost")
			} else {
				vrt.Assert(res == nil, sh.name+": a function without value result must give nil")
			}
		}
		// a panic inside is catchable by lisp code
		if Behave == 3 || Behave == 4 {
			callForm := List{Val: append([]MalType{Symbol{Val: name}}, quoteAll(args)...)}
			tryForm := List{Val: []MalType{Symbol{Val: "try"}, callForm, List{Val: []MalType{Symbol{Val: "catch"}, Symbol{Val: "e"}, NewKeyword("caught")}}}}
			r, e2 := lisp.EVAL(ctx, tryForm, ns)
			vrt.Assert(e2 == nil && r == NewKeyword("caught"), sh.name+": a panic inside the function is not catchable from lisp")
		}
	} else {
		vrt.Assert(Entered == 0, sh.name+": invoked outside its declared contract (count or type)")
		vrt.Assert(err != nil, sh.name+": no error for a call outside the contract")
	}
	vrt.Reach("end")
}

func quoteAll(args []MalType) []MalType {
	out := make([]MalType, len(args))
	for i, a := range args {
		out[i] = List{Val: []MalType{Symbol{Val: "quote"}, a}}
	}
	return out
}
