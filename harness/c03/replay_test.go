package c03

import (
	"testing"

	"verif.example/h/vrt"
)

func TestReplay(t *testing.T) {
	Setup()
	vrt.ReplayMain(map[string]func(){"Harness_try": Harness_try, "Harness_try_small": Harness_try_small, "Harness_try_tail": Harness_try_tail, "Harness_try_deadline": Harness_try_deadline, "Harness_try_tail_deadline": Harness_try_tail_deadline})
}
