// Package c03: throw, catch and finally.
package c03

import (
	"context"
	"errors"
	"time"

	"github.com/jig/lisp"
	"github.com/jig/lisp/env"
	"github.com/jig/lisp/lib/call"
	"github.com/jig/lisp/lisperror"
	"github.com/jig/lisp/lib/core"
	. "github.com/jig/lisp/types"
	"verif.example/h/lib"
	"verif.example/h/ref"
	"verif.example/h/vrt"
)

var (
	Base     EnvType
	Trace    []MalType
	Sentinel = errors.New("sentinel")
)

func trace_BANG(v MalType) (MalType, error) { Trace = append(Trace, v); return v, nil }
func fail_BANG() (MalType, error)           { return nil, Sentinel }
func panicerr_BANG() (MalType, error)       { panic(Sentinel) }
func panicval_BANG() (MalType, error)       { panic(42) }

// a Go error that carries a lisp error further down its Unwrap chain (a builtin reporting that a
// stage failed because of a lisp-level throw): the thrown object is the Go error, not what it wraps
type stageError struct{ inner error }

func (e *stageError) Error() string { return "stage failed: " + e.inner.Error() }
func (e *stageError) Unwrap() error { return e.inner }

var WrapSentinel = &stageError{inner: lisperror.NewLispError(7, nil)}

func wrapfail_BANG() (MalType, error) { return nil, WrapSentinel }

const prelude = `(do
  (def thrower (fn [v] (throw v)))
  (def thrower2 (fn [v] (do (thrower v) (trace! :not-reached))))
  (defmacro mthrow (fn [v] (list 'throw v))))`

func Setup() {
	Base = env.NewEnv()
	core.Load(Base)
	call.CallOverrideFN(Base, "trace!", trace_BANG)
	call.CallOverrideFN(Base, "fail!", fail_BANG)
	call.CallOverrideFN(Base, "panic-err!", panicerr_BANG)
	call.CallOverrideFN(Base, "panic-val!", panicval_BANG)
	call.CallOverrideFN(Base, "wrapfail!", wrapfail_BANG)
	if _, err := lisp.REPL(context.Background(), Base, prelude, nil); err != nil {
		panic(err)
	}
	ref.EqFn = lib.RefEq
}

func sym(n string) MalType      { return Symbol{Val: n} }
func lst(xs ...MalType) MalType { return List{Val: xs} }

// refGlobals: the reference scope with the same vocabulary.
func refGlobals(m *ref.Machine) *ref.Scope {
	g := ref.Globals()
	bi := func(name string, fn func(m *ref.Machine, a []MalType) (MalType, *ref.Thrown)) {
		g.Set(name, ref.Builtin{Name: name, Fn: fn})
	}
	bi("fail!", func(m *ref.Machine, a []MalType) (MalType, *ref.Thrown) {
		return nil, &ref.Thrown{Kind: "goerr", GoErr: Sentinel}
	})
	bi("panic-err!", func(m *ref.Machine, a []MalType) (MalType, *ref.Thrown) {
		return nil, &ref.Thrown{Kind: "goerr", GoErr: Sentinel}
	})
	bi("panic-val!", func(m *ref.Machine, a []MalType) (MalType, *ref.Thrown) {
		return nil, &ref.Thrown{Kind: "throw", Val: 42}
	})
	bi("wrapfail!", func(m *ref.Machine, a []MalType) (MalType, *ref.Thrown) {
		return nil, &ref.Thrown{Kind: "goerr", GoErr: WrapSentinel}
	})
	ast, err := lisp.READ(prelude, nil, nil)
	if err != nil {
		panic(err)
	}
	if _, th := m.Eval(ast, g); th != nil {
		panic("reference prelude failed")
	}
	return g
}

// thrown value expressions: evaluate to V
func valueExpr(tag string) MalType {
	if vrt.Param("small", 0) == 1 {
		// reduced alphabet: an integer, a list value, a symbol value
		switch vrt.Concrete(vrt.Choice(tag, 3)) {
		case 0:
			return vrt.Int(tag + "/i")
		case 1:
			return lst(sym("list"), 1, vrt.Int(tag+"/i"))
		}
		return lst(sym("quote"), sym("zz"))
	}
	switch vrt.Concrete(vrt.Choice(tag, 7)) {
	case 0:
		return vrt.Int(tag + "/i")
	case 1:
		return "s"
	case 2:
		return NewKeyword("k")
	case 3:
		return nil
	case 4:
		return lst(sym("list"), 1, vrt.Int(tag+"/i")) // a list value: evaluating it again would be a call
	case 5:
		return lst(sym("quote"), sym("zz")) // a symbol value: evaluating it again would be a lookup
	default:
		return HashMap{Val: map[string]MalType{NewKeyword("a"): vrt.Int(tag + "/i")}}
	}
}

// fragment is one form of a body, handler or finally.
func fragment(tag string, depth int, catchSym string) MalType {
	n := 10
	if depth > 0 {
		n = 11
	}
	k := vrt.Concrete(vrt.Choice(tag+"/f", n))
	if vrt.Param("small", 0) == 1 {
		// reduced alphabet: value, throw, trace, failing Go builtin, catch-variable observation, nested try
		vrt.Assume(k == 0 || k == 1 || k == 2 || k == 4 || k == 8 || k == 10)
	}
	switch k {
	case 0:
		return valueExpr(tag + "/v")
	case 1:
		return lst(sym("throw"), valueExpr(tag+"/v"))
	case 2:
		return lst(sym("trace!"), vrt.IntRange(tag+"/t", 0, 9))
	case 3:
		return lst(sym("thrower2"), valueExpr(tag+"/v"))
	case 4:
		return lst(sym("fail!"))
	case 5:
		return lst(sym("panic-err!"))
	case 6:
		return lst(sym("panic-val!"))
	case 7:
		return lst(sym("mthrow"), valueExpr(tag+"/v"))
	case 8:
		// observe the catch variable (or its absence)
		return lst(sym("trace!"), sym(catchSym))
	case 9:
		return lst(sym("wrapfail!"))
	default:
		return tryForm(tag+"/n", depth-1)
	}
}

func forms(tag string, depth int, max int, catchSym string) []MalType {
	n := vrt.Concrete(vrt.Choice(tag+"/n", max+1))
	out := make([]MalType, n)
	for i := range out {
		out[i] = fragment(tag+"/"+string(rune('0'+i)), depth, catchSym)
	}
	return out
}

func tryForm(tag string, depth int) MalType {
	max := vrt.Param("forms", 2)
	// the catch variable; observing it outside the handler must find it unbound
	cs := "e"
	elems := []MalType{sym("try")}
	elems = append(elems, forms(tag+"/b", depth, max, cs)...)
	if vrt.Bool(tag + "/catch") {
		h := forms(tag+"/h", depth, max, cs)
		vrt.Assume(len(h) > 0)
		elems = append(elems, List{Val: append([]MalType{sym("catch"), sym(cs)}, h...)})
	}
	if vrt.Bool(tag + "/finally") {
		// finally bodies that throw are outside the statement
		f := []MalType{lst(sym("trace!"), 100+vrt.IntRange(tag+"/ft", 0, 9))}
		if vrt.Bool(tag + "/fobs") {
			f = append(f, lst(sym("try"), lst(sym("trace!"), sym(cs)), lst(sym("catch"), sym("q"), lst(sym("trace!"), NewKeyword("unbound")))))
		}
		elems = append(elems, List{Val: append([]MalType{sym("finally")}, f...)})
	}
	return List{Val: elems}
}

func sameValue(real, want MalType) bool {
	switch w := want.(type) {
	case error:
		r, ok := real.(error)
		return ok && errors.Is(r, w)
	case ref.ErrorObject:
		return true
	case *ref.Closure:
		_, ok := real.(MalFunc)
		return ok
	case ref.Builtin:
		_, ok := real.(Func)
		return ok
	}
	return lib.RefEq(real, want)
}

func Harness_try() {
	runAndCompare(tryForm("t", vrt.Param("nest", 1)))
}

// farCtx is a caller's context that never ends but has a deadline (an hour away): with a
// deadline the try body runs under a derived budget context that is released after the body;
// the handler, the finally body and whatever follows the try form still run under the caller's.
type farCtx struct{ deadline time.Time }

func (c *farCtx) Deadline() (time.Time, bool) { return c.deadline, true }
func (c *farCtx) Done() <-chan struct{}       { return nil }
func (c *farCtx) Err() error                  { return nil }
func (c *farCtx) Value(any) any               { return nil }

// callerCtx: context.Background(), or (parameter deadline=1) a live context with a far deadline.
func callerCtx() context.Context {
	if vrt.Param("deadline", 0) == 1 {
		return &farCtx{deadline: time.Now().Add(time.Hour)}
	}
	return context.Background()
}

// Harness_try_deadline: the same programs evaluated under a caller's context that has a (far) deadline.
func Harness_try_deadline() { Harness_try() }

// Harness_try_tail_deadline: Harness_try_tail under a caller's context with a far deadline.
func Harness_try_tail_deadline() { Harness_try_tail() }

func runAndCompare(prog MalType) {
	m := &ref.Machine{Fuel: 400}
	rg := refGlobals(m)
	m.Trace = nil
	wantV, wantTh := m.Eval(prog, rg)
	vrt.Assume(!m.OutOf && !m.Unspec)
	e := env.NewSubordinateEnv(Base)
	Trace = nil
	var gotV MalType
	var gotErr error
	ctx := callerCtx()
	panicked, pmsg := vrt.NoPanic(func() { gotV, gotErr = lisp.EVAL(ctx, prog, e) })
	vrt.Assert(!panicked, "EVAL panicked: "+pmsg)
	if wantTh == nil {
		vrt.Assert(gotErr == nil, "try form: error where a value is prescribed")
		vrt.Assert(sameValue(gotV, wantV), "try form: value differs (body value, or handler value returned as a value)")
	} else {
		vrt.Assert(gotErr != nil, "try form: value where an uncaught error is prescribed")
		if wantTh.GoErr != nil {
			vrt.Assert(errors.Is(gotErr, wantTh.GoErr), "uncaught Go error no longer reachable with errors.Is")
		} else if wantTh.Kind == "throw" {
			ev, ok := gotErr.(interface{ ErrorValue() MalType })
			vrt.Assert(ok, "uncaught lisp throw is not a lisp error")
			vrt.Assert(lib.RefEq(ev.ErrorValue(), wantTh.Val), "uncaught thrown value arrived changed")
		}
	}
	vrt.Assert(len(Trace) == len(m.Trace), "number of effects differs (handler or finally not run exactly once?)")
	for i := range m.Trace {
		vrt.Assert(sameValue(Trace[i], m.Trace[i]), "effect order/value differs (thrown value changed, finally misplaced, catch variable scope)")
	}
	vrt.Reach("end")
}

// Harness_try_small: the same check over the reduced fragment alphabet (parameter small=1).
func Harness_try_small() { Harness_try() }

// TryProgram returns a symbolic try/catch/finally program; Prelude is the lisp prelude it needs.
func TryProgram(tag string, nest int) MalType { return tryForm(tag, nest) }

const Prelude = prelude

// RegisterBuiltins binds the Go builtins the try programs call (except trace!).
func RegisterBuiltins(e EnvType) {
	call.CallOverrideFN(e, "fail!", fail_BANG)
	call.CallOverrideFN(e, "panic-err!", panicerr_BANG)
	call.CallOverrideFN(e, "panic-val!", panicval_BANG)
	call.CallOverrideFN(e, "wrapfail!", wrapfail_BANG)
}

// Harness_try_tail: an outer try with catch and finally whose handler ends (in tail
// position, directly or through do/let/if or a call) in another try with its own,
// different or absent, finally: every pending finally runs exactly once, innermost first.
func Harness_try_tail() {
	inner := []MalType{sym("try"), fragment("ib", 0, "e")}
	if vrt.Bool("icatch") {
		inner = append(inner, lst(sym("catch"), sym("q"), fragment("ih", 0, "q")))
	}
	if vrt.Bool("ifinally") {
		inner = append(inner, lst(sym("finally"), lst(sym("trace!"), 201)))
	}
	var tail MalType = List{Val: inner}
	switch vrt.Concrete(vrt.Choice("via", 4)) {
	case 1:
		tail = lst(sym("do"), lst(sym("trace!"), 7), tail)
	case 2:
		tail = lst(sym("let"), Vector{Val: []MalType{sym("z"), 1}}, tail)
	case 3:
		tail = lst(sym("if"), true, tail)
	}
	prog := lst(sym("try"), fragment("ob", 0, "e"),
		lst(sym("catch"), sym("e"), tail),
		lst(sym("finally"), lst(sym("trace!"), 101)))
	runAndCompare(prog)
}
