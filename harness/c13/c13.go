// Package c13: collection builtins vs. the abstract sequence / map / set model.
//
// The models below are written from the README "Additions" section, the
// ";=>" expectations of tests/step*.mal and the mal guide, not from core.go.
// Where those documents are silent or contradictory the model answers rAny
// (anything accepted).
package c13

import (
	"context"
	"errors"

	"github.com/jig/lisp/env"
	"github.com/jig/lisp/lib/core"
	"github.com/jig/lisp/reader"
	. "github.com/jig/lisp/types"
	"verif.example/h/lib"
	"verif.example/h/vrt"
)

var Env EnvType

func Setup() {
	Env = env.NewEnv()
	core.Load(Env)
}

const (
	rVal = iota
	rErr
	rAny
)

type res struct {
	kind      int
	v         MalType
	unordered bool // sequence result whose order is unspecified (keys, vals, seq of a set)
}

func val(v MalType) res { return res{kind: rVal, v: v} }

var (
	fail = res{kind: rErr}
	any_ = res{kind: rAny}
)

// ---- helpers on abstract values

func seqOf(v MalType) ([]MalType, bool) {
	switch x := v.(type) {
	case List:
		return x.Val, true
	case Vector:
		return x.Val, true
	}
	return nil, false
}

func isKey(v MalType) (string, bool) { s, ok := v.(string); return s, ok }

func copyMap(m map[string]MalType) map[string]MalType {
	r := map[string]MalType{}
	for k, v := range m {
		r[k] = v
	}
	return r
}

func copySet(m map[string]struct{}) map[string]struct{} {
	r := map[string]struct{}{}
	for k := range m {
		r[k] = struct{}{}
	}
	return r
}

func list(xs ...MalType) MalType { return List{Val: append([]MalType{}, xs...)} }

// ---- the function arguments used for map/apply/update

var errBoom = errors.New("boom")

// fnIdent returns its first argument; fnFail fails; fnCount returns the number of arguments.
var fnIdent = Func{Fn: func(_ context.Context, a []MalType) (MalType, error) {
	if len(a) == 0 {
		return nil, nil
	}
	return a[0], nil
}}
var fnFail = Func{Fn: func(_ context.Context, a []MalType) (MalType, error) { return nil, errBoom }}
var fnCount = Func{Fn: func(_ context.Context, a []MalType) (MalType, error) { return len(a), nil }}
var fnList = Func{Fn: func(_ context.Context, a []MalType) (MalType, error) { return List{Val: append([]MalType{}, a...)}, nil }}

func applyModel(f MalType, a []MalType) res {
	fn, ok := f.(Func)
	if !ok {
		return fail
	}
	r, err := fn.Fn(context.Background(), a)
	if err != nil {
		return fail
	}
	return val(r)
}

// ---- models

type builtin struct {
	name  string
	max   int // largest interesting argument count (count ranges over 0..max+1)
	model func(a []MalType) res
	fnArg int // index of a function-valued argument, -1 if none
}

func intArg(v MalType) (int, bool) { i, ok := v.(int); return i, ok }

func mTake(a []MalType) res {
	if len(a) != 2 {
		return fail
	}
	n, ok := intArg(a[0])
	if !ok {
		return fail
	}
	if a[1] == nil {
		return val(list())
	}
	s, ok := seqOf(a[1])
	if !ok {
		return fail
	}
	if n < 0 {
		n = 0
	}
	if n > len(s) {
		n = len(s)
	}
	return val(list(s[:n]...))
}

func mTakeLast(a []MalType) res {
	if len(a) != 2 {
		return fail
	}
	n, ok := intArg(a[0])
	if !ok {
		return fail
	}
	if a[1] == nil {
		return val(nil)
	}
	s, ok := seqOf(a[1])
	if !ok {
		return fail
	}
	if n < 0 {
		n = 0
	}
	if n > len(s) {
		n = len(s)
	}
	if n == 0 {
		return val(nil) // stepM: (take-last 0 [1]) ;=>nil, (take-last 2 []) ;=>nil
	}
	return val(list(s[len(s)-n:]...))
}

func mDrop(a []MalType) res {
	if len(a) != 2 {
		return fail
	}
	n, ok := intArg(a[0])
	if !ok {
		return fail
	}
	if a[1] == nil {
		return val(list())
	}
	s, ok := seqOf(a[1])
	if !ok {
		return fail
	}
	if n < 0 {
		n = 0
	}
	if n > len(s) {
		n = len(s)
	}
	return val(list(s[n:]...))
}

func mDropLast(a []MalType) res {
	if len(a) != 2 {
		return fail
	}
	n, ok := intArg(a[0])
	if !ok {
		return fail
	}
	if a[1] == nil {
		return val(list())
	}
	s, ok := seqOf(a[1])
	if !ok {
		return fail
	}
	if n < 0 {
		n = 0
	}
	if n > len(s) {
		n = len(s)
	}
	return val(list(s[:len(s)-n]...))
}

func mSubvec(a []MalType) res {
	if len(a) != 2 && len(a) != 3 {
		return fail
	}
	v, ok := a[0].(Vector)
	if !ok {
		return fail
	}
	from, ok := intArg(a[1])
	if !ok {
		return fail
	}
	to := len(v.Val)
	if len(a) == 3 {
		to, ok = intArg(a[2])
		if !ok {
			return fail
		}
	}
	if from < 0 || to < from || to > len(v.Val) {
		return fail // outside the documented domain: an error, never a wrong value
	}
	return val(Vector{Val: append([]MalType{}, v.Val[from:to]...)})
}

func mRange(a []MalType) res {
	if len(a) != 2 {
		return fail
	}
	from, ok1 := intArg(a[0])
	to, ok2 := intArg(a[1])
	if !ok1 || !ok2 {
		return fail
	}
	out := []MalType{}
	for i := from; i < to; i++ {
		out = append(out, i)
	}
	return val(Vector{Val: out})
}

func mList(a []MalType) res   { return val(List{Val: a}) }
func mVector(a []MalType) res { return val(Vector{Val: a}) }

func mCons(a []MalType) res {
	if len(a) != 2 {
		return fail
	}
	if a[1] == nil {
		return any_ // the guide only conses onto lists and vectors
	}
	s, ok := seqOf(a[1])
	if !ok {
		return fail
	}
	return val(list(append([]MalType{a[0]}, s...)...))
}

func mConcat(a []MalType) res {
	out := []MalType{}
	for _, x := range a {
		if x == nil {
			return any_
		}
		s, ok := seqOf(x)
		if !ok {
			return fail
		}
		out = append(out, s...)
	}
	return val(List{Val: out})
}

func mVec(a []MalType) res {
	if len(a) != 1 {
		return fail
	}
	if s, ok := seqOf(a[0]); ok {
		return val(Vector{Val: append([]MalType{}, s...)})
	}
	if st, ok := a[0].(Set); ok {
		out := []MalType{}
		for k := range st.Val {
			out = append(out, k)
		}
		return res{kind: rVal, v: Vector{Val: out}, unordered: true}
	}
	if a[0] == nil {
		return any_
	}
	return fail
}

func mNth(a []MalType) res {
	if len(a) != 2 {
		return fail
	}
	s, ok := seqOf(a[0])
	if !ok {
		return fail
	}
	i, ok := intArg(a[1])
	if !ok {
		return fail
	}
	if i < 0 || i >= len(s) {
		return fail
	}
	return val(s[i])
}

func mFirst(a []MalType) res {
	if len(a) != 1 {
		return fail
	}
	if a[0] == nil {
		return val(nil)
	}
	s, ok := seqOf(a[0])
	if !ok {
		return fail
	}
	if len(s) == 0 {
		return val(nil)
	}
	return val(s[0])
}

func mRest(a []MalType) res {
	if len(a) != 1 {
		return fail
	}
	if a[0] == nil {
		return val(list())
	}
	s, ok := seqOf(a[0])
	if !ok {
		return fail
	}
	if len(s) == 0 {
		return val(list())
	}
	return val(list(s[1:]...))
}

func mCount(a []MalType) res {
	if len(a) != 1 {
		return fail
	}
	switch x := a[0].(type) {
	case nil:
		return val(0)
	case List:
		return val(len(x.Val))
	case Vector:
		return val(len(x.Val))
	case HashMap:
		return val(len(x.Val))
	case Set:
		return val(len(x.Val))
	case string:
		return any_
	}
	return fail
}

func mEmpty(a []MalType) res {
	if len(a) != 1 {
		return fail
	}
	switch x := a[0].(type) {
	case List:
		return val(len(x.Val) == 0)
	case Vector:
		return val(len(x.Val) == 0)
	case HashMap:
		return val(len(x.Val) == 0)
	case Set:
		return val(len(x.Val) == 0)
	case nil, string:
		return any_
	}
	return fail
}

func mConj(a []MalType) res {
	if len(a) == 0 {
		return fail
	}
	if len(a) == 1 {
		return any_ // (conj coll): documents are silent
	}
	switch c := a[0].(type) {
	case List:
		out := []MalType{}
		for i := len(a) - 1; i >= 1; i-- {
			out = append(out, a[i])
		}
		return val(List{Val: append(out, c.Val...)})
	case Vector:
		return val(Vector{Val: append(append([]MalType{}, c.Val...), a[1:]...)})
	case HashMap:
		if len(a)%2 != 1 {
			return fail
		}
		m := copyMap(c.Val)
		for i := 1; i < len(a); i += 2 {
			k, ok := isKey(a[i])
			if !ok {
				return fail
			}
			m[k] = a[i+1]
		}
		return val(HashMap{Val: m})
	case Set:
		m := copySet(c.Val)
		for _, x := range a[1:] {
			k, ok := isKey(x)
			if !ok {
				return fail
			}
			m[k] = struct{}{}
		}
		return val(Set{Val: m})
	case nil:
		return any_
	}
	return fail
}

func mSeq(a []MalType) res {
	if len(a) != 1 {
		return fail
	}
	switch x := a[0].(type) {
	case nil:
		return val(nil) // stepA: (seq nil) ;=>nil
	case List:
		if len(x.Val) == 0 {
			return val(nil)
		}
		return val(List{Val: x.Val})
	case Vector:
		if len(x.Val) == 0 {
			return val(nil)
		}
		return val(List{Val: x.Val})
	case Set:
		if len(x.Val) == 0 {
			return any_ // stepF expects () here while every other empty collection gives nil
		}
		out := []MalType{}
		for k := range x.Val {
			out = append(out, k)
		}
		return res{kind: rVal, v: List{Val: out}, unordered: true}
	case string:
		if len(x) >= 2 && x[0] == 0xCA && x[1] == 0x9E {
			return any_ // keyword
		}
		if x == "" {
			return val(nil)
		}
		out := []MalType{}
		for _, r := range x {
			if r == 0xFFFD {
				return any_ // invalid UTF-8: unspecified
			}
			out = append(out, string(r))
		}
		return val(List{Val: out})
	}
	return fail
}

func mMap(a []MalType) res {
	if len(a) != 2 {
		return fail
	}
	if a[1] == nil {
		return any_
	}
	s, ok := seqOf(a[1])
	if !ok {
		return fail
	}
	out := []MalType{}
	for _, x := range s {
		r := applyModel(a[0], []MalType{x})
		if r.kind != rVal {
			return r
		}
		out = append(out, r.v)
	}
	return val(List{Val: out})
}

func mApply(a []MalType) res {
	if len(a) < 2 {
		return fail
	}
	last := a[len(a)-1]
	if last == nil {
		return any_
	}
	s, ok := seqOf(last)
	if !ok {
		return fail
	}
	args := append(append([]MalType{}, a[1:len(a)-1]...), s...)
	return applyModel(a[0], args)
}

func mHashMap(a []MalType) res {
	if len(a) == 1 {
		return any_ // Go-object conversion
	}
	if len(a)%2 != 0 {
		return fail
	}
	m := map[string]MalType{}
	for i := 0; i < len(a); i += 2 {
		k, ok := isKey(a[i])
		if !ok {
			return fail
		}
		m[k] = a[i+1]
	}
	return val(HashMap{Val: m})
}

func mAssoc(a []MalType) res {
	if len(a) == 0 {
		return fail
	}
	switch c := a[0].(type) {
	case HashMap:
		if len(a) == 1 {
			return any_
		}
		if len(a)%2 != 1 {
			return fail
		}
		m := copyMap(c.Val)
		for i := 1; i < len(a); i += 2 {
			k, ok := isKey(a[i])
			if !ok {
				return fail
			}
			m[k] = a[i+1]
		}
		return val(HashMap{Val: m})
	case Vector:
		if len(a) == 1 {
			return any_
		}
		if len(a)%2 != 1 {
			return fail
		}
		out := append([]MalType{}, c.Val...)
		for i := 1; i < len(a); i += 2 {
			k, ok := intArg(a[i])
			if !ok {
				return fail
			}
			if k == len(out) {
				return any_ // Clojure appends; the documents do not say
			}
			if k < 0 || k > len(out) {
				return fail
			}
			out[k] = a[i+1]
		}
		return val(Vector{Val: out})
	case Set:
		if len(a) == 1 {
			return any_
		}
		m := copySet(c.Val)
		for _, x := range a[1:] {
			k, ok := isKey(x)
			if !ok {
				return fail
			}
			m[k] = struct{}{}
		}
		return val(Set{Val: m})
	case nil:
		return any_
	}
	return fail
}

func mDissoc(a []MalType) res {
	if len(a) == 0 {
		return fail
	}
	switch c := a[0].(type) {
	case HashMap:
		if len(a) == 1 {
			return any_
		}
		m := copyMap(c.Val)
		for _, x := range a[1:] {
			k, ok := isKey(x)
			if !ok {
				return fail
			}
			delete(m, k)
		}
		return val(HashMap{Val: m})
	case Set:
		if len(a) == 1 {
			return any_
		}
		m := copySet(c.Val)
		for _, x := range a[1:] {
			k, ok := isKey(x)
			if !ok {
				return fail
			}
			delete(m, k)
		}
		return val(Set{Val: m})
	case nil:
		return any_
	}
	return fail
}

func mGet(a []MalType) res {
	if len(a) != 2 {
		return fail
	}
	switch c := a[0].(type) {
	case nil:
		return val(nil)
	case HashMap:
		k, ok := isKey(a[1])
		if !ok {
			return any_ // lookup with a key of another kind: Clojure says nil, the guide is silent
		}
		v, present := c.Val[k]
		if !present {
			return val(nil)
		}
		return val(v)
	case Set:
		k, ok := isKey(a[1])
		if !ok {
			return any_
		}
		if _, present := c.Val[k]; present {
			return val(k)
		}
		return val(nil)
	case Vector, List:
		s, _ := seqOf(c)
		k, ok := intArg(a[1])
		if !ok {
			return any_
		}
		if k < 0 || k >= len(s) {
			return any_ // Clojure: nil; documents silent
		}
		return val(s[k])
	}
	return any_
}

func mContains(a []MalType) res {
	if len(a) != 2 {
		return fail
	}
	k, ok := isKey(a[1])
	if !ok {
		return fail
	}
	switch c := a[0].(type) {
	case nil:
		return val(false)
	case HashMap:
		_, present := c.Val[k]
		return val(present)
	case Set:
		_, present := c.Val[k]
		return val(present)
	}
	return fail
}

func mKeys(a []MalType) res {
	if len(a) != 1 {
		return fail
	}
	m, ok := a[0].(HashMap)
	if !ok {
		return fail
	}
	out := []MalType{}
	for k := range m.Val {
		out = append(out, k)
	}
	return res{kind: rVal, v: List{Val: out}, unordered: true}
}

func mVals(a []MalType) res {
	if len(a) != 1 {
		return fail
	}
	m, ok := a[0].(HashMap)
	if !ok {
		return fail
	}
	out := []MalType{}
	for _, v := range m.Val {
		out = append(out, v)
	}
	return res{kind: rVal, v: List{Val: out}, unordered: true}
}

func mMerge(a []MalType) res {
	if len(a) != 2 {
		return fail
	}
	// stepE: "nil maps supported": nil counts as the empty map, (merge nil nil) is nil
	if a[0] == nil && a[1] == nil {
		return val(nil)
	}
	var m0, m1 HashMap
	if a[0] != nil {
		var ok bool
		if m0, ok = a[0].(HashMap); !ok {
			return fail
		}
	}
	if a[1] != nil {
		var ok bool
		if m1, ok = a[1].(HashMap); !ok {
			return fail
		}
	}
	m := copyMap(m0.Val)
	for k, v := range m1.Val {
		m[k] = v
	}
	return val(HashMap{Val: m})
}

func mRenameKeys(a []MalType) res {
	if len(a) != 2 {
		return fail
	}
	m0, ok0 := a[0].(HashMap)
	m1, ok1 := a[1].(HashMap)
	if !ok0 || !ok1 {
		return fail
	}
	// as in Clojure: every key of m0 present in m1 is replaced by m1's value, all at once
	final := map[string]string{}
	for k := range m0.Val {
		nk := k
		if v, present := m1.Val[k]; present {
			ks, ok := isKey(v)
			if !ok {
				return any_
			}
			nk = ks
		}
		final[k] = nk
	}
	out := map[string]MalType{}
	for k, v := range m0.Val {
		nk := final[k]
		if _, clash := out[nk]; clash {
			return any_ // two entries end up under one name: the winner is unspecified
		}
		out[nk] = v
	}
	return val(HashMap{Val: out})
}

func mGetIn(a []MalType) res {
	if len(a) != 2 {
		return fail
	}
	path, ok := a[1].(Vector)
	if !ok {
		if a[0] == nil {
			return any_
		}
		return fail
	}
	cur := a[0]
	for idx, k := range path.Val {
		// the documents show a missing last key (nil) but never a path that goes on beneath a nil:
		// Clojure answers nil, this implementation sometimes an error: unspecified
		if cur == nil && idx > 0 {
			return any_
		}
		// README: "ks must be a vector of hash map keys" (indices for vectors, stepG)
		switch k.(type) {
		case string:
		case int:
			// an index is a key of a vector only: met by a map or by nil it is not a "hash map key",
			// which the README leaves undefined (the implementation answers with an error, Clojure with nil)
			if _, isVec := cur.(Vector); !isVec {
				return any_
			}
		default:
			return any_
		}
		r := mGet([]MalType{cur, k})
		if r.kind != rVal {
			return any_
		}
		cur = r.v
	}
	return val(cur)
}

func mSet(a []MalType) res {
	if len(a) != 1 {
		return fail
	}
	if a[0] == nil {
		return val(Set{Val: map[string]struct{}{}})
	}
	s, ok := seqOf(a[0])
	if !ok {
		return fail
	}
	m := map[string]struct{}{}
	for _, x := range s {
		k, ok := isKey(x)
		if !ok {
			return fail
		}
		m[k] = struct{}{}
	}
	return val(Set{Val: m})
}

func mHashSet(a []MalType) res { return mSet([]MalType{List{Val: a}}) }

func mAssocIn(a []MalType) res {
	if len(a) != 3 {
		return fail
	}
	path, ok := a[1].(Vector)
	if !ok {
		return fail
	}
	return assocIn(a[0], path.Val, a[2])
}

func assocIn(m MalType, path []MalType, v MalType) res {
	if len(path) == 0 {
		return val(m) // stepG: (assoc-in [0 1 2] [] "hello") leaves the collection unchanged
	}
	if len(path) == 1 {
		return mAssoc([]MalType{m, path[0], v})
	}
	// nested: the branch must exist as a collection of the right kind or be absent in a map
	switch c := m.(type) {
	case HashMap:
		k, ok := isKey(path[0])
		if !ok {
			return any_
		}
		br, present := c.Val[k]
		if !present || br == nil {
			br = HashMap{Val: map[string]MalType{}}
		}
		switch br.(type) {
		case HashMap, Vector:
		default:
			return any_
		}
		in := assocIn(br, path[1:], v)
		if in.kind != rVal {
			return in
		}
		return mAssoc([]MalType{m, path[0], in.v})
	case Vector:
		k, ok := intArg(path[0])
		if !ok || k < 0 || k >= len(c.Val) {
			return any_
		}
		br := c.Val[k]
		switch br.(type) {
		case HashMap, Vector:
		default:
			return any_
		}
		in := assocIn(br, path[1:], v)
		if in.kind != rVal {
			return in
		}
		return mAssoc([]MalType{m, path[0], in.v})
	}
	return any_
}

func mUpdate(a []MalType) res {
	if len(a) != 3 {
		return fail
	}
	switch c := a[0].(type) {
	case nil:
		return any_
	case HashMap:
		k, ok := isKey(a[1])
		if !ok {
			return any_
		}
		old := c.Val[k]
		r := applyModel(a[2], []MalType{old})
		if r.kind != rVal {
			return r
		}
		return mAssoc([]MalType{c, k, r.v})
	case Vector:
		k, ok := intArg(a[1])
		if !ok || k < 0 || k >= len(c.Val) {
			return any_
		}
		r := applyModel(a[2], []MalType{c.Val[k]})
		if r.kind != rVal {
			return r
		}
		return mAssoc([]MalType{c, k, r.v})
	}
	return fail
}

func pred(f func(MalType) bool) func(a []MalType) res {
	return func(a []MalType) res {
		if len(a) != 1 {
			return fail
		}
		return val(f(a[0]))
	}
}

func isKeyword(v MalType) bool {
	s, ok := v.(string)
	return ok && len(s) >= 2 && s[0] == 0xCA && s[1] == 0x9E
}

var Table = []builtin{
	{"take", 2, mTake, -1},
	{"take-last", 2, mTakeLast, -1},
	{"drop", 2, mDrop, -1},
	{"drop-last", 2, mDropLast, -1},
	{"subvec", 3, mSubvec, -1},
	{"range", 2, mRange, -1},
	{"list", 2, mList, -1},
	{"vector", 2, mVector, -1},
	{"cons", 2, mCons, -1},
	{"concat", 3, mConcat, -1},
	{"vec", 1, mVec, -1},
	{"nth", 2, mNth, -1},
	{"first", 1, mFirst, -1},
	{"rest", 1, mRest, -1},
	{"count", 1, mCount, -1},
	{"empty?", 1, mEmpty, -1},
	{"conj", 3, mConj, -1},
	{"seq", 1, mSeq, -1},
	{"map", 2, mMap, 0},
	{"apply", 3, mApply, 0},
	{"hash-map", 4, mHashMap, -1},
	{"assoc", 3, mAssoc, -1},
	{"dissoc", 2, mDissoc, -1},
	{"get", 2, mGet, -1},
	{"contains?", 2, mContains, -1},
	{"keys", 1, mKeys, -1},
	{"vals", 1, mVals, -1},
	{"merge", 2, mMerge, -1},
	{"rename-keys", 2, mRenameKeys, -1},
	{"get-in", 2, mGetIn, -1},
	{"assoc-in", 3, mAssocIn, -1},
	{"update", 3, mUpdate, 2},
	{"set", 1, mSet, -1},
	{"hash-set", 2, mHashSet, -1},
	{"nil?", 1, pred(func(v MalType) bool { return v == nil }), -1},
	{"true?", 1, pred(func(v MalType) bool { b, ok := v.(bool); return ok && b }), -1},
	{"false?", 1, pred(func(v MalType) bool { b, ok := v.(bool); return ok && !b }), -1},
	{"symbol?", 1, pred(func(v MalType) bool { _, ok := v.(Symbol); return ok }), -1},
	{"keyword?", 1, pred(isKeyword), -1},
	{"string?", 1, pred(func(v MalType) bool { _, ok := v.(string); return ok && !isKeyword(v) }), -1},
	{"number?", 1, pred(func(v MalType) bool { _, ok := v.(int); return ok }), -1},
	{"list?", 1, pred(func(v MalType) bool { _, ok := v.(List); return ok }), -1},
	{"vector?", 1, pred(func(v MalType) bool { _, ok := v.(Vector); return ok }), -1},
	{"map?", 1, pred(func(v MalType) bool { _, ok := v.(HashMap); return ok }), -1},
	{"set?", 1, pred(func(v MalType) bool { _, ok := v.(Set); return ok }), -1},
	{"sequential?", 1, pred(func(v MalType) bool { _, ok := seqOf(v); return ok }), -1},
}

// sameResult compares kind-sensitively (a list is not a vector here).
func sameResult(got, want MalType, unordered bool) bool {
	if vrt.Same(got, want) {
		return true
	}
	switch w := want.(type) {
	case List:
		g, ok := got.(List)
		return ok && sameSeq(g.Val, w.Val, unordered)
	case Vector:
		g, ok := got.(Vector)
		return ok && sameSeq(g.Val, w.Val, unordered)
	case HashMap:
		g, ok := got.(HashMap)
		if !ok || len(g.Val) != len(w.Val) {
			return false
		}
		for k, v := range w.Val {
			gv, present := g.Val[k]
			if !present || !sameResult(gv, v, false) {
				return false
			}
		}
		return true
	}
	return lib.RefEq(got, want)
}

func sameSeq(g, w []MalType, unordered bool) bool {
	if len(g) != len(w) {
		return false
	}
	if !unordered {
		for i := range w {
			if !sameResult(g[i], w[i], false) {
				return false
			}
		}
		return true
	}
	used := make([]bool, len(g))
	for _, x := range w {
		found := false
		for j := range g {
			if !used[j] && sameResult(g[j], x, false) {
				used[j], found = true, true
				break
			}
		}
		if !found {
			return false
		}
	}
	return true
}

func gen() *lib.Gen {
	return &lib.Gen{Depth: vrt.Param("depth", 1), Width: vrt.Param("width", 2), StrLen: vrt.Param("strlen", 1), Alphabet: "ab\xCA",
		NameAlphabet: "ab", Lazy: true, Ints: nil}
}

func fnChoice(tag string) MalType {
	switch vrt.Concrete(vrt.Choice(tag, 5)) {
	case 0:
		return fnIdent
	case 1:
		return fnFail
	case 2:
		return fnCount
	case 3:
		return fnList
	}
	return 7 // not a function
}

// precondition states the bounds of the documented domain that keep loops finite.
func precondition(b builtin, args []MalType) {
	if b.name == "range" && len(args) == 2 {
		// small ranges (the loop length is a bound of the claim)
		if from, ok := args[0].(int); ok {
			if to, ok := args[1].(int); ok {
				vrt.Assume(-1000 <= from && from <= 1000 && -1000 <= to && to <= 1000)
				vrt.Assume(to-from <= vrt.Param("maxrange", 3))
			}
		}
	}
}

// check runs builtin b on symbolic arguments and compares with the model.
func check(b builtin) {
	g := gen()
	top := b.max + 1
	if lim := vrt.Param("maxargc", 3); top > lim {
		top = lim
	}
	n := vrt.Concrete(vrt.Choice("argc", top+1))
	args := make([]MalType, n)
	for i := 0; i < n; i++ {
		if i == b.fnArg {
			args[i] = fnChoice("f")
		} else {
			args[i] = g.Elem("a"+string(rune('0'+i)), g.Depth)
		}
	}
	run(b, args, n)
}

func run(b builtin, args []MalType, n int) {
	precondition(b, args)
	f, err := Env.Get(Symbol{Val: b.name})
	vrt.Assert(err == nil, "builtin "+b.name+" is not registered")
	// the builtin must not see the very slice the model reads from
	callArgs := append([]MalType{}, args...)
	var got MalType
	var gerr error
	panicked, _ := vrt.NoPanic(func() { got, gerr = f.(Func).Fn(context.Background(), callArgs) })
	vrt.Assert(!panicked, b.name+": panic escaped the binder")
	want := b.model(args)
	vrt.Observe("fn", b.name)
	vrt.Observe("argc", n)
	switch want.kind {
	case rErr:
		vrt.Assert(gerr != nil, b.name+": outside its domain returned a value instead of an error")
	case rVal:
		vrt.Assert(gerr == nil, b.name+": returned an error inside its documented domain")
		vrt.Assert(sameResult(got, want.v, want.unordered), b.name+": result differs from the model")
	}
	vrt.Reach("end")
}

// Harness_builtin checks the builtin selected by parameter fn (or every one by choice).
func Harness_builtin() {
	idx := vrt.Param("fn", -1)
	if idx < 0 {
		idx = vrt.Concrete(vrt.Choice("fn", len(Table)))
	}
	check(Table[idx])
}

// ---- capacities as real programs get them

var seeds []MalType

// SetupSeeds builds seed collections through the real reader and builtins so
// that their backing arrays have the spare capacity real programs see.
func SetupSeeds() {
	Setup()
	for _, src := range []string{"[1 2 3]", "(1 2 3)", "[1 2 3 4 5]", "[]", "[7]"} {
		v, err := reader.Read_str(src, nil, nil)
		if err != nil {
			panic(err)
		}
		seeds = append(seeds, v)
	}
	conj, _ := Env.Get(Symbol{Val: "conj"})
	v, err := conj.(Func).Fn(context.Background(), []MalType{seeds[0], 4, 5})
	if err != nil {
		panic(err)
	}
	seeds = append(seeds, v)
}

// Harness_seeded applies the index/length builtins to seed collections with symbolic integers.
func Harness_seeded() {
	names := []string{"subvec", "nth", "take", "take-last", "drop", "drop-last", "get", "rest", "first", "count", "seq", "vec"}
	name := lib.Pick("fn", names)
	var b builtin
	for _, t := range Table {
		if t.name == name {
			b = t
		}
	}
	coll := seeds[vrt.Concrete(vrt.Choice("seed", len(seeds)))]
	i := vrt.Int("i")
	j := vrt.Int("j")
	var args []MalType
	switch name {
	case "subvec":
		if vrt.Bool("three") {
			args = []MalType{coll, i, j}
		} else {
			args = []MalType{coll, i}
		}
	case "nth", "get":
		args = []MalType{coll, i}
	case "take", "take-last", "drop", "drop-last":
		args = []MalType{i, coll}
	default:
		args = []MalType{coll}
	}
	run(b, args, len(args))
}

// ---- two-map builtins on maps with several entries

// Harness_twomaps applies rename-keys and merge to a data map that is any
// subset of four fixed keys and a second map in which each of three of those
// keys is absent or mapped to one of five keys: swaps, rotations and chains
// of renamings are all inside this space.
func Harness_twomaps() {
	name := lib.Pick("fn", []string{"rename-keys", "merge"})
	var b builtin
	for _, t := range Table {
		if t.name == name {
			b = t
		}
	}
	ka, kb, kc, kd := NewKeyword("a"), NewKeyword("b"), NewKeyword("c"), NewKeyword("d")
	dataKeys := []string{ka, kb, kc, "s"}
	targets := []MalType{ka, kb, kc, kd, "s"}
	data := map[string]MalType{}
	for i, k := range dataKeys {
		if vrt.Bool("d" + itoa(i)) {
			data[k] = i + 1
		}
	}
	second := map[string]MalType{}
	for i, k := range dataKeys[:3] {
		c := vrt.Concrete(vrt.Choice("r"+itoa(i), len(targets)+1))
		if c < len(targets) {
			second[k] = targets[c]
		}
	}
	run(b, []MalType{HashMap{Val: data}, HashMap{Val: second}}, 2)
}

// ---- compositions: the result of one builtin is the collection argument of another

func Harness_compose() {
	producers := []string{"hash-map", "vector", "list", "conj", "assoc", "dissoc", "rest", "take", "drop", "vec", "range", "concat", "merge", "set", "hash-set", "cons", "subvec", "seq", "rename-keys", "keys", "vals"}
	consumers := []string{"count", "empty?", "first", "rest", "nth", "get", "contains?", "conj", "assoc", "dissoc", "keys", "vals", "seq", "vec", "merge", "concat", "cons", "take", "drop", "subvec", "map?", "list?", "vector?", "nil?", "sequential?", "get-in", "apply", "map"}
	find := func(name string) builtin {
		for _, t := range Table {
			if t.name == name {
				return t
			}
		}
		panic("no builtin " + name)
	}
	pa := find(lib.Pick("A", producers))
	pb := find(lib.Pick("B", consumers))
	g := gen()
	na := vrt.Concrete(vrt.Choice("argcA", 3))
	argsA := make([]MalType, na)
	for i := range argsA {
		argsA[i] = g.Elem("x"+itoa(i), g.Depth)
	}
	precondition(pa, argsA)
	fa, _ := Env.Get(Symbol{Val: pa.name})
	gotA, errA := fa.(Func).Fn(context.Background(), append([]MalType{}, argsA...))
	wantA := pa.model(argsA)
	// only continue from a first step that is inside its domain and correct
	vrt.Assume(wantA.kind == rVal && errA == nil)
	vrt.Assume(sameResult(gotA, wantA.v, wantA.unordered))
	// position of the collection in B's argument list
	pos := 0
	switch pb.name {
	case "take", "drop", "cons":
		pos = 1
	case "apply", "map":
		pos = 1
	}
	nb := pos + 1 + vrt.Concrete(vrt.Choice("extraB", 2))
	if pb.name == "apply" || pb.name == "map" {
		nb = 2
	}
	argsB := make([]MalType, nb)
	wantArgsB := make([]MalType, nb)
	for i := range argsB {
		switch {
		case i == pos:
			argsB[i], wantArgsB[i] = gotA, wantA.v
		case i == pb.fnArg:
			argsB[i] = fnChoice("f")
			wantArgsB[i] = argsB[i]
		case vrt.Bool("dup" + itoa(i)):
			// the produced value used a second time
			argsB[i], wantArgsB[i] = gotA, wantA.v
		default:
			argsB[i] = g.Elem("y"+itoa(i), g.Depth)
			wantArgsB[i] = argsB[i]
		}
	}
	precondition(pb, argsB)
	fb, _ := Env.Get(Symbol{Val: pb.name})
	var gotB MalType
	var errB error
	panicked, _ := vrt.NoPanic(func() { gotB, errB = fb.(Func).Fn(context.Background(), append([]MalType{}, argsB...)) })
	vrt.Assert(!panicked, pb.name+": panic escaped the binder")
	wantB := pb.model(wantArgsB)
	if wantA.unordered && wantB.kind == rVal {
		// the order A chose is unspecified: only order-insensitive consumers are comparable
		switch pb.name {
		case "count", "empty?", "map?", "list?", "vector?", "nil?", "sequential?":
		default:
			wantB = any_
		}
	}
	vrt.Observe("A", pa.name)
	vrt.Observe("B", pb.name)
	msg := pb.name + " after " + pa.name
	switch wantB.kind {
	case rErr:
		vrt.Assert(errB != nil, msg+": outside its domain returned a value instead of an error")
	case rVal:
		vrt.Assert(errB == nil, msg+": returned an error inside its documented domain")
		vrt.Assert(sameResult(gotB, wantB.v, wantB.unordered), msg+": result differs from the model")
	}
	vrt.Reach("end")
}

func itoa(i int) string { return string(rune('0' + i)) }
