package c13

import (
	"testing"

	"verif.example/h/vrt"
)

func TestReplay(t *testing.T) {
	SetupSeeds()
	vrt.ReplayMain(map[string]func(){"Harness_builtin": Harness_builtin, "Harness_seeded": Harness_seeded, "Harness_compose": Harness_compose, "Harness_twomaps": Harness_twomaps})
}
