// Package c05: reading never panics or hangs.
package c05

import (
	"context"

	"github.com/jig/lisp"
	"github.com/jig/lisp/env"
	"github.com/jig/lisp/lib/call"
	"github.com/jig/lisp/lib/core"
	. "github.com/jig/lisp/types"
	"verif.example/h/vrt"
)

// Sigma is the byte alphabet for symbolic source text: every delimiter, reader
// macro, quote, comment, placeholder and constructor character, digits and
// letters standing for their classes, and the lead/continuation bytes of the
// multi-byte characters the reader treats specially, plus NUL, 0xFF.
const Sigma = "()[]{}'`~@^#\"\\;:$-01xanil._& \n\r\t\xC2\xAC\xAB\xBB\xCA\x9E\x00\xFF"

var Env EnvType

func Setup() {
	Env = env.NewEnv()
	core.Load(Env)
	// a Go constructor reachable through the «a ...» syntax
	call.CallOverrideFN(Env, "new-a", func(a MalType) (MalType, error) { return a, nil })
}

func textTag(prefix string, n int) string {
	b := make([]byte, n)
	for i := range b {
		b[i] = vrt.ByteIn(prefix+string(rune('0'+i)), Sigma)
	}
	return string(b)
}

// readAndPrint is the common oracle: no panic from reading; PRINT works on success.
func readAndPrint(what string, read func() (MalType, error)) {
	var ast MalType
	var err error
	panicked, msg := vrt.NoPanic(func() { ast, err = read() })
	vrt.Assert(!panicked, what+" panicked: "+msg)
	if err == nil {
		panicked, msg = vrt.NoPanic(func() { _ = lisp.PRINT(ast) })
		vrt.Assert(!panicked, "PRINT panicked on a value "+what+" accepted: "+msg)
	}
}

func nsChoice() EnvType {
	if vrt.Bool("withenv") {
		return Env
	}
	return nil
}

// Harness_preamble: READWithPreamble on N symbolic bytes and on texts that
// start with one or two preamble lines with symbolic name and value bytes.
func Harness_preamble() {
	var src string
	small := func(tag, alpha string) string { return string([]byte{vrt.ByteIn(tag, alpha)}) }
	switch vrt.Concrete(vrt.Choice("shape", 3)) {
	case 0:
		src = textTag("b", vrt.Param("n", 3))
	case 1:
		// one preamble line: name byte, separator byte, value bytes, then a blank or non-blank line, then code
		src = ";; $" + small("n", "A1-_ $\n(") + small("sep", " \t\n;x") + textTag("v", vrt.Param("v", 1)) + "\n" + small("s", "\n;( $") + "\n" + textTag("c", vrt.Param("c", 1))
	default:
		// two preamble lines, the second one possibly malformed
		src = ";; $A " + textTag("v", 1) + "\n;;" + small("t", " $;\n") + small("u", "$B \n") + small("w", " 1\n(") + textTag("x", vrt.Param("v", 1)) + "\n\n" + textTag("c", vrt.Param("c", 1))
	}
	ns := nsChoice()
	vrt.Observe("src", src)
	readAndPrint("READWithPreamble", func() (MalType, error) { return lisp.READWithPreamble(src, nil, ns) })
	vrt.Reach("end")
}

// Harness_readstring: the read-string builtin on symbolic text.
func Harness_readstring() {
	src := textTag("b", vrt.Param("n", 3))
	f, _ := Env.Get(Symbol{Val: "read-string"})
	vrt.Observe("src", src)
	readAndPrint("read-string", func() (MalType, error) { return f.(Func).Fn(context.Background(), []MalType{src}) })
	vrt.Reach("end")
}

// Harness_focus: templates that put symbolic bytes inside the constructs a
// short fully symbolic text cannot reach: Go-constructor brackets, string and
// raw-string quotes, nested collections, reader macros before collections.
func Harness_focus() {
	k := vrt.Param("k", 2)
	mid := textTag("m", k)
	var src string
	switch vrt.Concrete(vrt.Choice("shape", 9)) {
	case 0:
		src = "«" + mid + "»"
	case 1:
		src = "«a " + mid + "»"
	case 2:
		src = "«" + mid
	case 3:
		src = "\"" + mid + "\""
	case 4:
		src = "¬" + mid + "¬"
	case 5:
		src = "(" + mid + ")"
	case 6:
		src = "{" + mid + "}"
	case 7:
		src = "#{" + mid + "}"
	default:
		src = "^" + mid + " x"
	}
	ns := nsChoice()
	vrt.Observe("src", src)
	readAndPrint("READ", func() (MalType, error) { return lisp.READ(src, nil, ns) })
	vrt.Reach("end")
}

func text(n int) string {
	b := make([]byte, n)
	for i := range b {
		b[i] = vrt.ByteIn("b"+string(rune('0'+i)), Sigma)
	}
	return string(b)
}

// Harness_read: READ on N symbolic bytes, with and without an environment.
func Harness_read() {
	n := vrt.Param("n", 3)
	src := text(n)
	var ns EnvType
	if vrt.Bool("withenv") {
		ns = Env
	}
	var ast MalType
	var err error
	panicked, msg := vrt.NoPanic(func() { ast, err = lisp.READ(src, nil, ns) })
	vrt.Observe("src", src)
	vrt.Assert(!panicked, "READ panicked: "+msg)
	if err == nil {
		var out string
		panicked, msg = vrt.NoPanic(func() { out = lisp.PRINT(ast) })
		vrt.Assert(!panicked, "PRINT panicked on a value READ accepted: "+msg)
		_ = out
	}
	vrt.Reach("end")
}
