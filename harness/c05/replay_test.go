package c05

import (
	"testing"

	"verif.example/h/vrt"
)

func TestReplay(t *testing.T) {
	Setup()
	vrt.ReplayMain(map[string]func(){"Harness_read": Harness_read, "Harness_preamble": Harness_preamble, "Harness_readstring": Harness_readstring, "Harness_focus": Harness_focus})
}
