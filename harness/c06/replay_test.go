package c06

import (
	"testing"

	"verif.example/h/vrt"
)

func TestReplay(t *testing.T) {
	vrt.ReplayMain(map[string]func(){"Harness_value": Harness_value, "Harness_text": Harness_text, "Harness_text_quoted": Harness_text_quoted, "Harness_text_raw": Harness_text_raw, "Harness_jsonish": Harness_jsonish})
}
