// Package c06: printing then reading returns the same value.
package c06

import (
	"github.com/jig/lisp"
	. "github.com/jig/lisp/types"
	"verif.example/h/lib"
	"verif.example/h/vrt"
)

// strAscii: the ASCII part of the string alphabet (quote, backslash, newline,
// tab, space, braces that switch the printer to raw form, comment, keyword and
// placeholder markers, brackets, a letter that forms \n with a backslash).
const strAscii = "an\"\\\n\t {};:$()"

// multi-byte characters: the raw-string quote and the keyword marker
var strMulti = []string{"¬", "ʞ"}

var ints = []int{0, 1, -1, 7, -42, 1000000, 9223372036854775807, -9223372036854775808}

func value(tag string, d, w, s int) MalType {
	nk := lib.KList
	if d > 0 {
		nk = lib.NKinds
	}
	k := vrt.Concrete(vrt.Choice(tag+"/k", nk))
	switch k {
	case lib.KNil:
		return nil
	case lib.KBool:
		return vrt.Bool(tag + "/b")
	case lib.KInt:
		return ints[vrt.Concrete(vrt.Choice(tag+"/i", len(ints)))]
	case lib.KString:
		str := lib.RuneStr(tag+"/s", s, strAscii, strMulti)
		// a string whose first character is U+029E is a keyword by representation
		vrt.Assume(!(len(str) >= 2 && str[0] == 0xCA && str[1] == 0x9E))
		return str
	case lib.KKeyword:
		// keyword names over the token alphabet, including the marker character itself
		name := lib.RuneStr(tag+"/kw", 2, "ab-", []string{"ʞ"})
		vrt.Assume(len(name) > 0)
		return NewKeyword(name)
	case lib.KSymbol:
		return Symbol{Val: string([]byte{vrt.ByteIn(tag+"/sy", "ab+")}) + "y"}
	case lib.KList, lib.KVector:
		n := vrt.Concrete(vrt.Choice(tag+"/n", w+1))
		elems := make([]MalType, n)
		for i := range elems {
			elems[i] = value(tag+"/"+string(rune('0'+i)), d-1, w, s)
		}
		if k == lib.KList {
			return List{Val: elems}
		}
		return Vector{Val: elems}
	case lib.KMap:
		n := vrt.Concrete(vrt.Choice(tag+"/n", w+1))
		m := map[string]MalType{}
		for i := 0; i < n; i++ {
			key := mapKey(tag+"/k"+string(rune('0'+i)), s)
			_, dup := m[key]
			vrt.Assume(!dup)
			m[key] = value(tag+"/v"+string(rune('0'+i)), d-1, w, s)
		}
		return HashMap{Val: m}
	default:
		n := vrt.Concrete(vrt.Choice(tag+"/n", w+1))
		m := map[string]struct{}{}
		for i := 0; i < n; i++ {
			key := mapKey(tag+"/m"+string(rune('0'+i)), s)
			_, dup := m[key]
			vrt.Assume(!dup)
			m[key] = struct{}{}
		}
		return Set{Val: m}
	}
}

func mapKey(tag string, s int) string {
	if vrt.Bool(tag + "/kw") {
		return NewKeyword(string([]byte{vrt.ByteIn(tag+"/n", "ab")}))
	}
	str := lib.RuneStr(tag+"/s", 1, strAscii, strMulti)
	vrt.Assume(!(len(str) >= 2 && str[0] == 0xCA && str[1] == 0x9E))
	return str
}

// Harness_value: READ(PRINT(v)) equals v for symbolic data values.
func Harness_value() {
	v := value("v", vrt.Param("depth", 1), vrt.Param("width", 2), vrt.Param("strlen", 2))
	txt := lisp.PRINT(v)
	r, err := lisp.READ(txt, nil, nil)
	vrt.Observe("~printed", txt)
	vrt.Assert(err == nil, "READ rejects the text PRINT produced for a "+lib.Show(v))
	vrt.Assert(lib.RefEq(r, v), "READ(PRINT(v)) differs from v for a "+lib.Show(v))
	vrt.Reach("end")
}

// Sigma is the byte alphabet for symbolic source text (as in c05 without NUL/0xFF which no text READ accepts contains outside strings).
const Sigma = "()[]{}'`~@^#\"\\;:$-01xanil._& \n\r\t\xC2\xAC\xCA\x9E"

// Harness_text: for accepted texts without floats, READ(PRINT(READ(t))) equals READ(t).
func Harness_text() {
	n := vrt.Param("n", 3)
	b := make([]byte, n)
	for i := range b {
		b[i] = vrt.ByteIn("b"+string(rune('0'+i)), Sigma)
	}
	src := string(b)
	if vrt.Param("quoted", 0) == 1 {
		src = "\"" + src + "\""
	} else if vrt.Param("quoted", 0) == 2 {
		src = "¬" + src + "¬"
	}
	x, err := lisp.READ(src, nil, nil)
	vrt.Assume(err == nil)
	vrt.Assume(!lib.HasFloat(x))
	txt := lisp.PRINT(x)
	y, err2 := lisp.READ(txt, nil, nil)
	vrt.Observe("src", src)
	vrt.Observe("~printed", txt)
	class := ""
	if xs, ok := x.(string); ok && len(xs) >= 2 && xs[0] == 0xCA && xs[1] == 0x9E && (src[0] == '"' || src[0] == 0xC2) {
		// the whole text is a string literal whose content starts with the keyword marker
		class = " [string literal starting with U+029E]"
	}
	vrt.Assert(err2 == nil, "READ rejects the printed form of a value it had read"+class)
	vrt.Assert(lib.RefEq(x, y), "READ(PRINT(x)) differs from x for a value read from text"+class)
	vrt.Reach("end")
}

// Harness_text_quoted / Harness_text_raw: the symbolic bytes sit inside a string / raw-string literal.
func Harness_text_quoted() { Harness_text() }
func Harness_text_raw()    { Harness_text() }

// Harness_jsonish: strings around the printer's raw-form rule: optional blank
// space, an opening that looks like JSON, symbolic content, a closing brace,
// optional blank space; alone and inside a collection.
func Harness_jsonish() {
	ws := []string{"", " ", "\n", "\t", " \n"}
	pre := ws[vrt.Concrete(vrt.Choice("pre", len(ws)))]
	post := ws[vrt.Concrete(vrt.Choice("post", len(ws)))]
	open := []string{"{\"", "{", "{ \"", "\"{\""}[vrt.Concrete(vrt.Choice("open", 4))]
	closing := []string{"}", "\"}", "} ", "}}", ""}[vrt.Concrete(vrt.Choice("close", 5))]
	mid := lib.RuneStr("mid", vrt.Param("strlen", 2), strAscii, strMulti)
	str := pre + open + mid + closing + post
	vrt.Assume(!(len(str) >= 2 && str[0] == 0xCA && str[1] == 0x9E))
	var v MalType = str
	switch vrt.Concrete(vrt.Choice("wrap", 3)) {
	case 1:
		v = List{Val: []MalType{str, 1}}
	case 2:
		v = HashMap{Val: map[string]MalType{NewKeyword("k"): str}}
	}
	txt := lisp.PRINT(v)
	r, err := lisp.READ(txt, nil, nil)
	vrt.Observe("~printed", txt)
	vrt.Assert(err == nil, "READ rejects the text PRINT produced for a JSON-looking string")
	vrt.Assert(lib.RefEq(r, v), "READ(PRINT(v)) differs from v for a JSON-looking string")
	vrt.Reach("end")
}
