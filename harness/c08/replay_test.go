package c08

import (
	"testing"

	"verif.example/h/vrt"
)

func TestReplay(t *testing.T) {
	Setup()
	vrt.ReplayMain(map[string]func(){"Harness_tail": Harness_tail, "Harness_tail_session": Harness_tail_session, "Harness_tail_heads": Harness_tail_heads})
}
