// Package c08: tail calls use no host stack.
package c08

import (
	"context"
	"errors"

	"github.com/jig/lisp"
	"github.com/jig/lisp/debuggertypes"
	"github.com/jig/lisp/env"
	"github.com/jig/lisp/lib/call"
	. "github.com/jig/lisp/types"
	"verif.example/h/lib"
	"verif.example/h/vrt"
)

var (
	Base   EnvType
	Depths []int
)

// depth! records the host stack depth at which the loop body runs; the third
// call ends the loop by returning an error (one inductive step, twice, for an
// arbitrary counter).
func depth_BANG() (MalType, error) {
	Depths = append(Depths, vrt.StackDepth())
	if len(Depths) == 3 {
		return nil, errStop
	}
	return nil, nil
}

var errStop = errors.New("three iterations observed")

var shapeName string

func Setup() {
	Base = lib.StdEnv()
	call.CallOverrideFN(Base, "depth!", depth_BANG)
}

func sym(n string) MalType       { return Symbol{Val: n} }
func lst(xs ...MalType) MalType  { return List{Val: xs} }
func vect(xs ...MalType) MalType { return Vector{Val: xs} }

var wrapperNames = []string{"then-branch", "else-branch", "last-of-do", "let-body", "cond-clause", "and-last", "or-last", "let-body-multi", "if-without-else", "let-empty-vector", "let-empty-list", "do-single"}

func wrap(k int, inner MalType) MalType {
	switch k {
	case 0:
		return lst(sym("if"), true, inner, NewKeyword("no"))
	case 1:
		return lst(sym("if"), false, NewKeyword("no"), inner)
	case 2:
		return lst(sym("do"), 1, inner)
	case 3:
		return lst(sym("let"), vect(sym("z"), 1), inner)
	case 4:
		return lst(sym("cond"), false, 1, true, inner)
	case 5:
		return lst(sym("and"), true, inner)
	case 6:
		return lst(sym("or"), false, inner)
	case 7:
		return lst(sym("let"), vect(sym("z"), 1), 2, inner)
	case 8:
		return lst(sym("if"), true, inner)
	case 9:
		return lst(sym("let"), vect(), inner)
	case 10:
		return lst(sym("let"), lst(), 1, inner)
	default:
		return lst(sym("do"), inner)
	}
}

// Harness_tail: loop shapes from nested tail-position constructs over a cycle of functions, arbitrary counter.
func Harness_tail() {
	nw := vrt.Concrete(vrt.Choice("nwrap", vrt.Param("wrappers", 2)+1))
	cycle := 1 + vrt.Concrete(vrt.Choice("cycle", vrt.Param("cycle", 2)))
	n := vrt.Int("n")
	vrt.Assume(n >= 3 && n < 1000000)
	shapeName = ""
	fname := func(i int) string { return "f" + string(rune('0'+i%cycle)) }
	prog := []MalType{sym("do")}
	for f := 0; f < cycle; f++ {
		// the tail call: its head is the function's name, or a computed form that yields the function
		var head MalType = sym(fname(f + 1))
		if nh := vrt.Param("heads", 1); nh > 1 {
			switch vrt.Concrete(vrt.Choice("head"+string(rune('0'+f)), nh)) {
			case 1:
				head = lst(sym("if"), true, sym(fname(f+1)), sym(fname(f+1)))
				shapeName += "computed-head "
			case 2:
				head = lst(sym("fn"), vect(sym("m")), lst(sym(fname(f+1)), sym("m")))
				shapeName += "lambda-head "
			case 3:
				head = lst(sym("get"), HashMap{Val: map[string]MalType{NewKeyword("k"): sym(fname(f + 1))}}, NewKeyword("k"))
				shapeName += "table-head "
			}
		}
		var body MalType = lst(sym("if"), lst(sym(">"), sym("n"), 0), lst(head, lst(sym("-"), sym("n"), 1)), NewKeyword("done"))
		for w := 0; w < nw; w++ {
			k := vrt.Concrete(vrt.Choice("w"+string(rune('0'+f))+string(rune('0'+w)), len(wrapperNames)))
			body = wrap(k, body)
			shapeName += wrapperNames[k] + " "
		}
		prog = append(prog, lst(sym("def"), sym(fname(f)), lst(sym("fn"), vect(sym("n")), lst(sym("depth!")), body)))
	}
	prog = append(prog, lst(sym(fname(0)), n))
	Depths = nil
	e := env.NewSubordinateEnv(Base)
	if vrt.Param("session", 0) != 0 {
		// a debugger session that ended before the loop starts must leave nothing behind: a stepper answers the
		// first consultations with symbolic commands (NoOp, Next, In, Out) on a small form and is then detached
		seen := 0
		lisp.Stepper = func(ast MalType, ns EnvType) debuggertypes.Command {
			seen++
			if seen > 2 {
				return debuggertypes.NoOp
			}
			return debuggertypes.Command(vrt.Concrete(vrt.Choice("cmd"+string(rune('0'+seen)), 4)))
		}
		small := []MalType{lst(sym("+"), 1, 2), lst(sym("do"), lst(sym("+"), 1, 2), 3)}[vrt.Concrete(vrt.Choice("small", 2))]
		_, serr := lisp.EVAL(context.Background(), small, e)
		lisp.Stepper = nil
		vrt.Assert(serr == nil, "the small form failed under a stepper")
	}
	_, err := lisp.EVAL(context.Background(), List{Val: prog}, e)
	vrt.Observe("shape", shapeName)
	vrt.Assert(len(Depths) == 3 && err != nil && errors.Is(err, errStop), "the loop did not run three iterations although the counter is at least 3: "+shapeName)
	vrt.Assert(Depths[0] == Depths[1] && Depths[1] == Depths[2], "host stack depth grows from one iteration of a tail-recursive loop to the next: "+shapeName)
	vrt.Reach("end")
}

// Harness_tail_session: the same measurement after a debugger session (see Harness_tail, parameter session).
func Harness_tail_session() { Harness_tail() }

// Harness_tail_heads: the tail call's head is a computed form (parameter heads).
func Harness_tail_heads() { Harness_tail() }
