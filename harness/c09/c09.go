// Package c09: atom operations are atomic, never lose updates and never hang.
package c09

import (
	"context"
	"errors"

	"github.com/jig/lisp/env"
	"github.com/jig/lisp/lib/concurrent"
	"github.com/jig/lisp/lib/core"
	. "github.com/jig/lisp/types"
	"verif.example/h/vrt"
)

var Base EnvType

func Setup() {
	Base = env.NewEnv()
	core.Load(Base)
	concurrent.Load(Base)
}

func builtin(name string) Func {
	f, err := Base.Get(Symbol{Val: name})
	if err != nil {
		panic(err)
	}
	return f.(Func)
}

var errBoom = errors.New("boom")

// one completed operation of the history
type op struct {
	kind     int // 0 deref, 1 reset, 2 swap-add, 3 failing swap, 4 swap-add that may give up
	arg      int
	res      MalType
	failed   bool
	inv, ret int // logical invocation / response times
}

func tick() int { return vrt.Tick() }

// run performs one operation on atom a through the registered builtins.
func run(a MalType, kind int, arg int, other MalType) op {
	ctx := context.Background()
	o := op{kind: kind, arg: arg, inv: tick()}
	var err error
	switch kind {
	case 0:
		o.res, err = builtin("deref").Fn(ctx, []MalType{a})
	case 1:
		o.res, err = builtin("reset!").Fn(ctx, []MalType{a, arg})
	case 2:
		add := Func{Fn: func(_ context.Context, xs []MalType) (MalType, error) { return xs[0].(int) + xs[1].(int), nil }}
		o.res, err = builtin("swap!").Fn(ctx, []MalType{a, add, arg})
	case 3:
		bad := Func{Fn: func(_ context.Context, xs []MalType) (MalType, error) { return nil, errBoom }}
		o.res, err = builtin("swap!").Fn(ctx, []MalType{a, bad})
	case 4: // update function that reads another atom
		f := Func{Fn: func(c context.Context, xs []MalType) (MalType, error) {
			v, e := builtin("deref").Fn(c, []MalType{other})
			if e != nil {
				return nil, e
			}
			return xs[0].(int) + v.(int)*0 + arg, nil
		}}
		o.kind = 2
		o.res, err = builtin("swap!").Fn(ctx, []MalType{a, f})
	case 5: // update function that updates another atom
		f := Func{Fn: func(c context.Context, xs []MalType) (MalType, error) {
			add := Func{Fn: func(_ context.Context, ys []MalType) (MalType, error) { return ys[0].(int) + 1, nil }}
			if _, e := builtin("swap!").Fn(c, []MalType{other, add}); e != nil {
				return nil, e
			}
			return xs[0].(int) + arg, nil
		}}
		o.kind = 2
		o.res, err = builtin("swap!").Fn(ctx, []MalType{a, f})
	case 6: // update function that reads the very atom being swapped
		f := Func{Fn: func(c context.Context, xs []MalType) (MalType, error) {
			v, e := builtin("deref").Fn(c, []MalType{a})
			if e != nil {
				return nil, e
			}
			return v.(int) + arg, nil
		}}
		o.kind = 2
		o.res, err = builtin("swap!").Fn(ctx, []MalType{a, f})
	case 7: // swap! under a context that is already cancelled: it is applied, or it gives up and changes nothing
		c2, cancel := context.WithCancel(ctx)
		cancel()
		add := Func{Fn: func(_ context.Context, xs []MalType) (MalType, error) { return xs[0].(int) + xs[1].(int), nil }}
		o.kind = 4
		o.res, err = builtin("swap!").Fn(c2, []MalType{a, add, arg})
	}
	o.failed = err != nil
	o.ret = tick()
	return o
}

// linearizable builds (branch-free, as one solver term over the symbolic
// initial value, deltas and results) the statement "some total order of the
// operations consistent with real time explains every result and the final value".
func linearizable(init int, ops []op, final MalType) bool {
	n := len(ops)
	used := make([]bool, n)
	fin, finIsInt := final.(int)
	var rec func(done int, val int) bool
	rec = func(done int, val int) bool {
		if done == n {
			return finIsInt && vrt.EqInt(fin, val)
		}
		any := false
		for i := 0; i < n; i++ {
			if used[i] {
				continue
			}
			// i may come next only if no unused operation returned before i was invoked (concrete)
			okOrder := true
			for j := 0; j < n; j++ {
				if !used[j] && j != i && ops[j].ret < ops[i].inv {
					okOrder = false
				}
			}
			if !okOrder {
				continue
			}
			nv := val
			match := false
			r, isInt := ops[i].res.(int)
			switch ops[i].kind {
			case 0:
				match = !ops[i].failed && isInt && vrt.EqInt(r, val)
			case 1:
				nv = ops[i].arg
				match = !ops[i].failed && isInt && vrt.EqInt(r, nv)
			case 2:
				nv = val + ops[i].arg
				match = !ops[i].failed && isInt && vrt.EqInt(r, nv)
			case 3:
				match = ops[i].failed // a failing update leaves the value unchanged
			case 4: // an update that may give up (its evaluation was cancelled): applied, or nothing changed
				if ops[i].failed {
					match = true
				} else {
					nv = val + ops[i].arg
					match = isInt && vrt.EqInt(r, nv)
				}
			}
			used[i] = true
			any = vrt.Or(any, vrt.And(match, rec(done+1, nv)))
			used[i] = false
		}
		return any
	}
	return rec(0, init)
}

// Harness_atom: T threads x K operations on one atom (and a second one for the update functions).
// Natively (replay of a counterexample) the experiment is repeated many times
// under the race detector, since the schedule itself cannot be forced.
func Harness_atom() {
	T := vrt.Param("threads", 2)
	K := vrt.Param("ops", 2)
	init := vrt.Int("init")
	nkinds := vrt.Param("kinds", 8)
	kinds := make([][]int, T)
	args := make([][]int, T)
	for t := 0; t < T; t++ {
		kinds[t] = make([]int, K)
		args[t] = make([]int, K)
		for k := 0; k < K; k++ {
			tag := "t" + string(rune('0'+t)) + "k" + string(rune('0'+k))
			kinds[t][k] = vrt.Concrete(vrt.Choice(tag+"/kind", nkinds))
			args[t][k] = vrt.Int(tag + "/arg")
		}
	}
	reps := 1
	if !vrt.Symbolic() {
		reps = 400
	}
	for rep := 0; rep < reps; rep++ {
		experiment(T, K, init, kinds, args)
	}
	vrt.Reach("end")
}

func experiment(T, K, init int, kinds, args [][]int) {
	ctx := context.Background()
	a, _ := builtin("atom").Fn(ctx, []MalType{init})
	b, _ := builtin("atom").Fn(ctx, []MalType{100})
	results := make([][]op, T)
	done := make(chan int, T)
	for t := 0; t < T; t++ {
		t := t
		go func() {
			for k := 0; k < K; k++ {
				results[t] = append(results[t], run(a, kinds[t][k], args[t][k], b))
			}
			done <- t
		}()
	}
	for t := 0; t < T; t++ {
		<-done
	}
	final, _ := builtin("deref").Fn(ctx, []MalType{a})
	var all []op
	for t := 0; t < T; t++ {
		all = append(all, results[t]...)
	}
	vrt.Assert(linearizable(init, all, final), "atom history is not linearizable (lost update, torn read, or failed update changed the value)")
}

// Harness_atom2: the same experiment under a second set of bounds.
func Harness_atom2() { Harness_atom() }
