package c09

import (
	"testing"

	"verif.example/h/vrt"
)

func TestReplay(t *testing.T) {
	Setup()
	vrt.ReplayMain(map[string]func(){"Harness_atom": Harness_atom, "Harness_atom2": Harness_atom2})
}
