// Package vrt holds the harness primitives.  Under the symbolic engine every
// function here is intercepted by name; compiled natively (for replaying a
// solver model against the real code) the inputs are read from the replay
// file named by VRT_REPLAY and unconstrained inputs default to 0.
package vrt

import (
	"encoding/json"
	"fmt"
	"os"
	"runtime"
	"strings"
	"sync/atomic"
	"time"
)

type replayFile struct {
	Values map[string]uint64 `json:"values"`
	Params map[string]int64  `json:"params"`
}

var (
	loaded   bool
	rf       replayFile
	Failures []string
	Obs      []string
	Reached  = map[string]bool{}
)

func load() {
	if loaded {
		return
	}
	loaded = true
	rf.Values = map[string]uint64{}
	rf.Params = map[string]int64{}
	if p := os.Getenv("VRT_REPLAY"); p != "" {
		b, err := os.ReadFile(p)
		if err != nil {
			panic(err)
		}
		if err := json.Unmarshal(b, &rf); err != nil {
			panic(err)
		}
	}
}

func clean(tag string) string {
	return strings.NewReplacer("|", "!", "\\", "!", " ", "_").Replace(tag)
}

func val(tag string) uint64 { load(); return rf.Values[clean(tag)] }

// AssumeFailed is the panic value of a failed Assume in native mode.
type AssumeFailed struct{}

// Stopped is the panic value of Stop in native mode.
type Stopped struct{}

func Int(tag string) int { return int(val(tag)) }

func IntRange(tag string, lo, hi int) int {
	if lo == hi {
		return lo
	}
	v := int(val(tag))
	Assume(lo <= v && v <= hi)
	return v
}

func Bool(tag string) bool { return val(tag) != 0 }
func Byte(tag string) byte { return byte(val(tag)) }

// ByteIn returns a byte constrained to the given alphabet.
func ByteIn(tag string, alphabet string) byte {
	if len(alphabet) == 1 {
		return alphabet[0]
	}
	b := byte(val(tag))
	Assume(strings.IndexByte(alphabet, b) >= 0)
	return b
}

func Choice(tag string, n int) int {
	if n <= 1 {
		return 0
	}
	v := int(val(tag))
	Assume(0 <= v && v < n)
	return v
}

func Assume(b bool) {
	if !b {
		panic(AssumeFailed{})
	}
}

func Assert(b bool, msg string) {
	if !b {
		Failures = append(Failures, msg)
		fmt.Printf("ASSERT-FAIL %s\n", msg)
		panic(AssumeFailed{}) // nothing continues under a failed assertion
	}
}

func Reach(label string) { Reached[label] = true }

func Observe(key string, v any) {
	var s string
	switch x := v.(type) {
	case nil:
		s = "nil"
	case string:
		s = fmt.Sprintf("%q", x)
	default:
		s = fmt.Sprint(x)
	}
	Obs = append(Obs, key+"="+s)
}

// StackDepth returns the number of live Go frames (native approximation).
func StackDepth() int {
	pc := make([]uintptr, 4096)
	return runtime.Callers(0, pc)
}

func Param(name string, def int) int {
	load()
	if v, ok := rf.Params[name]; ok {
		return int(v)
	}
	return def
}

var tickCounter int64

// Tick returns the next value of a global logical clock (race-free).
func Tick() int { return int(atomic.AddInt64(&tickCounter, 1)) }

func Stop()              { panic(Stopped{}) }
func Symbolic() bool     { return false }
func Concrete(x int) int { return x }
func Steps() int         { return 0 }

var startTime = time.Now()

// Now returns the (virtual) clock in nanoseconds.
func Now() int64 { return int64(time.Since(startTime)) }
func ThreadID() int      { return 0 }
func Yield()             { runtime.Gosched() }

var Files = map[string]string{}

// SetFile makes a file visible to os.ReadFile (engine: in-memory table; native: a real file in the working directory).
func SetFile(name, content string) {
	Files[name] = content
	if err := os.WriteFile(name, []byte(content), 0o644); err != nil {
		panic(err)
	}
}

// NoPanic runs f and reports whether it panicked (ordinary Go; interpreted as such).
func NoPanic(f func()) (panicked bool, msg string) {
	defer func() {
		if r := recover(); r != nil {
			switch r.(type) {
			case AssumeFailed, Stopped:
				panic(r)
			}
			panicked = true
			msg = fmt.Sprint(r)
		}
	}()
	f()
	return false, ""
}

// Run executes a harness natively and reports the outcome on stdout.
func Run(name string, f func()) (outcome string) {
	defer func() {
		if r := recover(); r != nil {
			switch r.(type) {
			case AssumeFailed:
				if len(Failures) > 0 {
					outcome = "assert"
				} else {
					outcome = "assume"
				}
			case Stopped:
				outcome = "pass"
			default:
				outcome = "panic"
				fmt.Printf("PANIC %v\n", r)
			}
		}
		for _, o := range Obs {
			fmt.Printf("OBS %s\n", o)
		}
		fmt.Printf("OUTCOME %s %s\n", name, outcome)
	}()
	f()
	if len(Failures) > 0 {
		return "assert"
	}
	return "pass"
}

// ReplayMain runs the harness named by VRT_HARNESS (native replay entry point).
func ReplayMain(hs map[string]func()) {
	name := os.Getenv("VRT_HARNESS")
	f, ok := hs[name]
	if !ok {
		fmt.Printf("OUTCOME %s unknown-harness\n", name)
		return
	}
	Run(name, f)
}

// Lazy returns a value whose generator runs when the value is first inspected
// (engine); natively the generator runs at once.
func Lazy(gen func() any) any { return gen() }

// Same reports whether a and b are the very same not yet inspected lazy value
// (engine only; natively always false, so callers fall back to a full comparison).
func Same(a, b any) bool { return false }

// IsLazy reports whether a is a not yet inspected lazy value (engine only).
func IsLazy(a any) bool { return false }

// Branch-free boolean / integer combinators: under the engine they build one
// solver term instead of forking the path at every && and ||.
func And(a, b bool) bool { return a && b }
func Or(a, b bool) bool  { return a || b }
func Not(a bool) bool    { return !a }
func EqInt(a, b int) bool { return a == b }
func IteInt(c bool, a, b int) int {
	if c {
		return a
	}
	return b
}
