package c04

import (
	"testing"

	"verif.example/h/vrt"
)

func TestReplay(t *testing.T) {
	Setup()
	vrt.ReplayMain(map[string]func(){"Harness_form": Harness_form, "Harness_quasi": Harness_quasi, "Harness_call": Harness_call, "Harness_concurrent": Harness_concurrent, "Harness_cancelled": Harness_cancelled})
}
