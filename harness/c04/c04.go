// Package c04: evaluation never panics into the host.
package c04

import (
	"context"
	"time"

	"github.com/jig/lisp"
	"github.com/jig/lisp/env"
	"github.com/jig/lisp/lib/call"
	. "github.com/jig/lisp/types"
	"verif.example/h/lib"
	"verif.example/h/vrt"
)

var (
	Base  EnvType
	Heads []string
)

var specialForms = []string{"def", "let", "quote", "quasiquoteexpand", "quasiquote", "defmacro", "macroexpand", "try", "do", "if", "fn", "catch", "finally", "unquote", "splice-unquote"}

// builtins whose body needs a library the engine does not model (named in evidence as outside the claim)
var skipped = map[string]bool{
	"json-encode": true, "json-decode": true, "hash-map-decode": true, "base64": true, "unbase64": true, "uuid": true,
	"spew": true, "version": true, "time-ms": true, "time-ns": true, "sleep": true, "slurp": true, "read-line": true,
	"str2binary": true, "binary2str": true, "split": true,
}

func Setup() {
	Base = lib.StdEnv()
	call.CallOverrideFN(Base, "trace!", func(v MalType) (MalType, error) { return v, nil })
	// every name the loaders registered, enumerated from the environment itself
	pk, err := Base.Get(Symbol{Val: "_PACKAGES_"})
	if err != nil {
		panic(err)
	}
	seen := map[string]bool{}
	for _, set := range pk.(HashMap).Val {
		for name := range set.(Set).Val {
			if !skipped[name] && !seen[name] {
				seen[name] = true
				Heads = append(Heads, name)
			}
		}
	}
	// names defined by the lisp header (macros and functions) and by nscore
	for _, n := range []string{"eval", "not", "cond", "inc", "dec", "identity", "or", "and", "->", "->>", "reduce", "gensym", "zero?"} {
		if _, err := Base.Get(Symbol{Val: n}); err == nil && !seen[n] {
			seen[n] = true
			Heads = append(Heads, n)
		}
	}
	// deterministic order (Go map iteration is random natively)
	for i := 1; i < len(Heads); i++ {
		for j := i; j > 0 && Heads[j] < Heads[j-1]; j-- {
			Heads[j], Heads[j-1] = Heads[j-1], Heads[j]
		}
	}
	Heads = append(Heads, specialForms...)
	Heads = append(Heads, "no-such-symbol")
}

func sym(n string) MalType      { return Symbol{Val: n} }
func lst(xs ...MalType) MalType { return List{Val: xs} }

func gen() *lib.Gen {
	return &lib.Gen{Depth: 1, Width: vrt.Param("width", 1), StrLen: 1, Alphabet: "a(", NameAlphabet: "ab", Lazy: true, Ints: []int{0, 1, -1, 7}}
}

func paramList(tag string) MalType {
	shapes := [][]MalType{
		{}, {sym("a")}, {sym("&")}, {sym("a"), sym("&")}, {sym("&"), sym("b")}, {sym("a"), sym("&"), sym("b"), sym("c")},
		{1, 2}, {sym("&"), 1}, {nil},
	}
	s := shapes[vrt.Concrete(vrt.Choice(tag, len(shapes)))]
	if vrt.Bool(tag + "/vec") {
		return Vector{Val: s}
	}
	return List{Val: s}
}

// operand is lazily materialised: a data value, a nested form, a parameter list, an empty list.
func operand(tag string, depth int) MalType {
	return vrt.Lazy(func() any {
		g := gen()
		n := 3
		if depth > 0 {
			n = 4
		}
		switch vrt.Concrete(vrt.Choice(tag+"/o", n)) {
		case 0:
			return g.Value(tag+"/d", 1)
		case 1:
			return paramList(tag + "/p")
		case 2:
			return List{Val: []MalType{}}
		default:
			return form(tag+"/f", depth-1, true)
		}
	})
}

// form builds (H o1 .. ok).
func form(tag string, depth int, inner bool) MalType {
	var head MalType
	heads := Heads
	if inner {
		heads = append([]string{"list", "first", "throw", "apply", "+"}, specialForms...)
	}
	switch vrt.Concrete(vrt.Choice(tag+"/hk", 3)) {
	case 0, 1:
		lo := vrt.Param("hlo", 0)
		hi := vrt.Param("hhi", len(heads))
		if inner || hi > len(heads) {
			lo, hi = 0, len(heads)
		}
		head = sym(heads[lo+vrt.Concrete(vrt.Choice(tag+"/h", hi-lo))])
	default:
		head = operand(tag+"/nh", 0) // a non-symbol head
	}
	k := vrt.Concrete(vrt.Choice(tag+"/k", vrt.Param("maxargs", 2)+1))
	elems := []MalType{head}
	for i := 0; i < k; i++ {
		elems = append(elems, operand(tag+"/"+string(rune('0'+i)), depth))
	}
	return List{Val: elems}
}

// Harness_form: EVAL of an arbitrary form returns; wrapped in try/catch it returns :caught or a value.
func Harness_form() {
	f := form("f", vrt.Param("depth", 1), false)
	wrapped := vrt.Bool("wrapped")
	if wrapped {
		f = lst(sym("try"), f, lst(sym("catch"), sym("e"), NewKeyword("caught")))
	}
	e := env.NewSubordinateEnv(Base)
	var err error
	panicked, msg := vrt.NoPanic(func() { _, err = lisp.EVAL(context.Background(), f, e) })
	if h, ok := f.(List).Val[0].(Symbol); ok {
		vrt.Observe("head", h.Val)
	}
	vrt.Assert(!panicked, "panic escaped EVAL: "+msg)
	if wrapped {
		vrt.Assert(err == nil, "an evaluation error was not catchable by try/catch")
	}
	vrt.Reach("end")
}

// tmpl builds a quasiquote template with unquote / splice-unquote forms that
// have 0..2 operands, at list and vector element positions and at the top.
func tmpl(tag string, depth int) MalType {
	k := vrt.Concrete(vrt.Choice(tag+"/t", 6))
	uq := func(name string) MalType {
		n := vrt.Concrete(vrt.Choice(tag+"/n", 3))
		elems := []MalType{sym(name)}
		for i := 0; i < n; i++ {
			elems = append(elems, operand(tag+"/u"+string(rune('0'+i)), 0))
		}
		return List{Val: elems}
	}
	switch k {
	case 0:
		return uq("unquote")
	case 1:
		return uq("splice-unquote")
	case 2:
		return operand(tag+"/d", 0)
	}
	if depth == 0 {
		return sym("x")
	}
	n := vrt.Concrete(vrt.Choice(tag+"/w", 3))
	elems := make([]MalType, n)
	for i := range elems {
		elems[i] = tmpl(tag+"/"+string(rune('0'+i)), depth-1)
	}
	if k == 3 {
		return Vector{Val: elems}
	}
	if k == 4 {
		return HashMap{Val: map[string]MalType{"k": tmpl(tag+"/m", depth-1)}}
	}
	return List{Val: elems}
}

// Harness_quasi: quasiquote / quasiquoteexpand of arbitrary templates never panic.
func Harness_quasi() {
	head := "quasiquote"
	if vrt.Bool("expand") {
		head = "quasiquoteexpand"
	}
	f := lst(sym(head), tmpl("t", vrt.Param("depth", 2)))
	e := env.NewSubordinateEnv(Base)
	panicked, msg := vrt.NoPanic(func() { _, _ = lisp.EVAL(context.Background(), f, e) })
	vrt.Assert(!panicked, "panic escaped EVAL (quasiquote): "+msg)
	vrt.Reach("end")
}

// Harness_call: calling closures, macros and let forms with arbitrary parameter lists and argument counts.
func Harness_call() {
	params := paramList("p")
	body := operand("body", 0)
	var f MalType
	argc := vrt.Concrete(vrt.Choice("argc", 4))
	args := make([]MalType, argc)
	for i := range args {
		args[i] = vrt.IntRange("a"+string(rune('0'+i)), 0, 3)
	}
	fnForm := lst(sym("fn"), params, body)
	switch vrt.Concrete(vrt.Choice("how", 9)) {
	case 0: // direct call
		f = List{Val: append([]MalType{fnForm}, args...)}
	case 1: // through apply
		f = lst(sym("apply"), fnForm, List{Val: append([]MalType{sym("list")}, args...)})
	case 2: // as a macro
		f = lst(sym("do"), lst(sym("defmacro"), sym("m"), fnForm), List{Val: append([]MalType{sym("m")}, args...)})
	case 3: // through map
		f = lst(sym("map"), fnForm, List{Val: append([]MalType{sym("list")}, args...)})
	case 4: // let with the parameter list as binding vector
		f = lst(sym("let"), params, body)
	case 5: // as the body of a future: applied on another host thread, outside any EVAL
		f = lst(sym("deref"), lst(sym("future-call"), fnForm))
	case 6: // as the update function of swap!
		f = List{Val: append([]MalType{sym("swap!"), lst(sym("atom"), 0), fnForm}, args...)}
	case 7: // as the update function of update
		f = List{Val: append([]MalType{sym("update"), HashMap{Val: map[string]MalType{"k": 1}}, "k", fnForm}, args...)}
	default: // memoized
		f = List{Val: append([]MalType{lst(sym("memoize"), fnForm)}, args...)}
	}
	if vrt.Bool("wrapped") {
		f = lst(sym("try"), f, lst(sym("catch"), sym("e"), NewKeyword("caught")))
	}
	e := env.NewSubordinateEnv(Base)
	panicked, msg := vrt.NoPanic(func() { _, _ = lisp.EVAL(context.Background(), f, e) })
	vrt.Assert(!panicked, "panic escaped EVAL (call): "+msg)
	vrt.Reach("end")
}

// ---- malformed forms evaluated while another evaluation is in flight

var (
	holdEntered = make(chan int, 4)
	holdRelease chan struct{}
)

func hold_BANG() (MalType, error) {
	holdEntered <- 1
	<-holdRelease
	return nil, nil
}

var malformed = []MalType{
	lst(sym("fn")),
	lst(sym("try"), sym("x"), lst(sym("catch"))),
	lst(sym("defmacro"), sym("m"), 1),
	lst(sym("quasiquote"), lst(sym("unquote"))),
	lst(lst(sym("fn"), Vector{Val: []MalType{sym("&")}}), 1),
	lst(sym("eval")),
}

// Harness_concurrent: a malformed form never panics, whether it is evaluated on its
// own, while a second host goroutine is in the middle of an evaluation, or by that second goroutine.
func Harness_concurrent() {
	f := malformed[vrt.Concrete(vrt.Choice("form", len(malformed)))]
	inOther := vrt.Bool("inother")
	holdRelease = make(chan struct{})
	e := env.NewSubordinateEnv(Base)
	call.CallOverrideFN(e, "hold!", hold_BANG)
	done := make(chan bool, 1)
	var otherPanicked bool
	go func() {
		// the other evaluation: blocks inside a builtin, then (optionally) evaluates the malformed form
		prog := lst(sym("do"), lst(sym("hold!")), 1)
		if inOther {
			prog = lst(sym("do"), lst(sym("hold!")), f)
		}
		p, _ := vrt.NoPanic(func() { _, _ = lisp.EVAL(context.Background(), prog, e) })
		otherPanicked = p
		done <- true
	}()
	<-holdEntered // the other evaluation is now in flight
	panicked := false
	if !inOther {
		panicked, _ = vrt.NoPanic(func() { _, _ = lisp.EVAL(context.Background(), f, e) })
	} else {
		// keep this goroutine inside an evaluation as well while the other one fails
		panicked, _ = vrt.NoPanic(func() { _, _ = lisp.EVAL(context.Background(), lst(sym("list"), 1, 2), e) })
	}
	close(holdRelease)
	<-done
	vrt.Assert(!panicked && !otherPanicked, "panic escaped EVAL while another evaluation was in flight")
	vrt.Reach("end")
}

// doneCtx is a context that is already cancelled (or past its deadline).
type doneCtx struct{ deadline bool }

func (c doneCtx) Deadline() (time.Time, bool) {
	if c.deadline {
		return time.Unix(1, 0), true
	}
	return time.Time{}, false
}
func (c doneCtx) Done() <-chan struct{} { ch := make(chan struct{}); close(ch); return ch }
func (c doneCtx) Err() error {
	if c.deadline {
		return context.DeadlineExceeded
	}
	return context.Canceled
}
func (c doneCtx) Value(any) any { return nil }

// Harness_cancelled: evaluation under an already ended context returns an error, never panics,
// whatever the form: atoms of every kind, collections, special forms, calls.
func Harness_cancelled() {
	g := gen()
	g.Lazy = false
	var f MalType
	switch vrt.Concrete(vrt.Choice("what", 3)) {
	case 0:
		f = g.Value("v", 1) // self-evaluating atoms and literal collections
	case 1:
		f = form("f", 0, true)
	default:
		f = lst(sym("try"), g.Value("v", 0), lst(sym("catch"), sym("e"), g.Value("h", 0)), lst(sym("finally"), g.Value("fin", 0)))
	}
	ctx := doneCtx{deadline: vrt.Bool("deadline")}
	e := env.NewSubordinateEnv(Base)
	panicked, msg := vrt.NoPanic(func() { _, _ = lisp.EVAL(ctx, f, e) })
	vrt.Assert(!panicked, "panic escaped EVAL under an ended context: "+msg)
	vrt.Reach("end")
}
