// Package c18: installing a debugger stepper does not change what programs compute.
package c18

import (
	"context"

	"github.com/jig/lisp"
	"github.com/jig/lisp/debuggertypes"
	"github.com/jig/lisp/env"
	"github.com/jig/lisp/lib/call"
	. "github.com/jig/lisp/types"
	"verif.example/h/c01"
	"verif.example/h/c03"
	"verif.example/h/c12"
	"verif.example/h/lib"
	"verif.example/h/vrt"
)

var (
	Base  EnvType
	Trace []MalType
)

func trace_BANG(v MalType) (MalType, error) { Trace = append(Trace, v); return v, nil }

func Setup() {
	Base = lib.StdEnv()
	call.CallOverrideFN(Base, "trace!", trace_BANG)
	c03.RegisterBuiltins(Base)
	if _, err := lisp.REPL(context.Background(), Base, c03.Prelude, nil); err != nil {
		panic(err)
	}
}

// same: structural equality with function values opaque.
func same(a, b MalType) bool {
	switch x := a.(type) {
	case MalFunc:
		_, ok := b.(MalFunc)
		return ok
	case Func:
		_, ok := b.(Func)
		return ok
	case error:
		_, ok := b.(error)
		return ok
	case List:
		y, ok := b.(List)
		return ok && sameSeq(x.Val, y.Val)
	case Vector:
		y, ok := b.(Vector)
		return ok && sameSeq(x.Val, y.Val)
	case HashMap:
		y, ok := b.(HashMap)
		if !ok || len(x.Val) != len(y.Val) {
			return false
		}
		for k, v := range x.Val {
			w, present := y.Val[k]
			if !present || !same(v, w) {
				return false
			}
		}
		return true
	}
	return lib.RefEq(a, b)
}

func sameSeq(x, y []MalType) bool {
	if len(x) != len(y) {
		return false
	}
	for i := range x {
		if !same(x[i], y[i]) {
			return false
		}
	}
	return true
}

func program() (setup MalType, prog MalType) {
	switch vrt.Concrete(vrt.Choice("family", 5)) {
	case 4:
		// malformed special forms (they fail with an ordinary error, C04), bare or inside try/catch
		sy := func(n string) MalType { return Symbol{Val: n} }
		bad := []MalType{
			List{Val: []MalType{sy("fn")}},
			List{Val: []MalType{sy("defmacro"), sy("m"), 1}},
			List{Val: []MalType{sy("defmacro")}},
			List{Val: []MalType{sy("let"), 5, 1}},
		}[vrt.Concrete(vrt.Choice("bad", 4))]
		if vrt.Bool("intry") {
			return nil, List{Val: []MalType{sy("try"), bad, List{Val: []MalType{sy("catch"), sy("e"), List{Val: []MalType{sy("trace!"), 9}}}}}}
		}
		return nil, bad
	case 0:
		return nil, c01.Program("p", vrt.Param("depth", 1), vrt.Param("width", 1))
	case 1:
		return nil, c01.Skeleton("sk", 0)
	case 2:
		return nil, c03.TryProgram("t", 0)
	default:
		def, callForm := c12.MacroProgram()
		return def, List{Val: []MalType{Symbol{Val: "let"}, Vector{Val: []MalType{Symbol{Val: "local"}, 77}}, callForm}}
	}
}

func errValue(err error) MalType {
	if err == nil {
		return nil
	}
	if ev, ok := err.(interface{ ErrorValue() MalType }); ok {
		return ev.ErrorValue()
	}
	return err
}

// Harness_stepper: same result, error and effects with any command sequence.
func Harness_stepper() {
	setup, prog := program()
	run := func() (MalType, error, []MalType) {
		e := env.NewSubordinateEnv(Base)
		if setup != nil {
			if _, err := lisp.EVAL(context.Background(), setup, e); err != nil {
				vrt.Assume(false)
			}
		}
		Trace = nil
		v, err := lisp.EVAL(context.Background(), prog, e)
		return v, err, append([]MalType{}, Trace...)
	}
	lisp.Stepper = nil
	v1, e1, t1 := run()
	consult := 0
	maxCmds := vrt.Param("cmds", 3)
	nilScope := false
	lisp.Stepper = func(ast MalType, ns EnvType) debuggertypes.Command {
		if ns == nil {
			nilScope = true
		}
		i := consult
		consult++
		if i >= maxCmds {
			return debuggertypes.NoOp
		}
		return debuggertypes.Command(vrt.Concrete(vrt.Choice("cmd"+string(rune('0'+i)), 4)))
	}
	var v2 MalType
	var e2 error
	var t2 []MalType
	panicked, msg := vrt.NoPanic(func() { v2, e2, t2 = run() })
	lisp.Stepper = nil
	vrt.Observe("consultations", consult)
	vrt.Assert(!panicked, "evaluation under a stepper panicked: "+msg)
	vrt.Assert(!nilScope, "stepper handed a form without a scope")
	vrt.Assert((e1 == nil) == (e2 == nil), "a stepper changes whether the program fails")
	if e1 == nil && e2 == nil {
		vrt.Assert(same(v1, v2), "a stepper changes the result")
	} else if e1 != nil && e2 != nil {
		vrt.Assert(same(errValue(e1), errValue(e2)), "a stepper changes the error")
	}
	vrt.Assert(len(t1) == len(t2), "a stepper changes the number of side effects")
	for i := range t1 {
		if i < len(t2) {
			vrt.Assert(same(t1[i], t2[i]), "a stepper changes the side effects or their order")
		}
	}
	vrt.Reach("end")
}
