package lib

import (
	"github.com/jig/lisp/env"
	"github.com/jig/lisp/lib/concurrent/nsconcurrent"
	"github.com/jig/lisp/lib/core/nscore"
	"github.com/jig/lisp/lib/coreextented/nscoreextended"
	"github.com/jig/lisp/types"
)

// StdEnv returns an environment preloaded like cmd/lisp does: core (with the
// lisp header), input functions, the concurrent library and the extended header.
func StdEnv() types.EnvType {
	e := env.NewEnv()
	for _, load := range []func(types.EnvType) error{nscore.Load, nscore.LoadInput, nsconcurrent.Load, nscoreextended.Load} {
		if err := load(e); err != nil {
			panic(err)
		}
	}
	return e
}
