// Package lib holds generators of symbolic lisp data and the independent
// reference comparison shared by the per-property harnesses.
package lib

import (
	"strconv"

	. "github.com/jig/lisp/types"
	"verif.example/h/vrt"
)

// Kinds of generated data values.
const (
	KNil = iota
	KBool
	KInt
	KString
	KKeyword
	KSymbol
	KList
	KVector
	KMap
	KSet
	NKinds
)

// Gen configures DataValue.
type Gen struct {
	Depth    int      // nesting depth of collections
	Width    int      // max elements per collection
	StrLen   int      // max bytes of symbolic strings (0: strings chosen from Strs)
	Strs     []string // concrete string choices when StrLen == 0
	NameAlphabet string // one-byte keyword / symbol / map-key names over this alphabet (default "ab")
	Ints     []int    // when non-nil integers are chosen from this set instead of being 64-bit variables
	NoSymbol bool
	NoSet    bool
	NoMap    bool
	Alphabet string // when non-empty symbolic string bytes are restricted to it
	Lazy     bool   // nested values are materialised on first inspection
	EmptyNames bool // symbol, keyword and key names may be empty
	NilMaps    bool // empty maps and sets may have a nil Go map
}

func itoa(i int) string { return strconv.Itoa(i) }

// Pick returns names[Choice] (forks over the feasible indices).
func Pick(tag string, names []string) string {
	return names[vrt.Concrete(vrt.Choice(tag, len(names)))]
}

// PickVal returns vals[Choice] (forks over the feasible indices).
func PickVal(tag string, vals []MalType) MalType {
	return vals[vrt.Concrete(vrt.Choice(tag, len(vals)))]
}

// Str returns a string of 0..StrLen symbolic bytes (one fork per length).
func (g *Gen) Str(tag string) string {
	if g.StrLen == 0 {
		if len(g.Strs) == 0 {
			return "s"
		}
		return Pick(tag, g.Strs)
	}
	n := vrt.Concrete(vrt.Choice(tag+"/len", g.StrLen+1))
	b := make([]byte, n)
	for i := 0; i < n; i++ {
		if g.Alphabet != "" {
			b[i] = vrt.ByteIn(tag+"/"+itoa(i), g.Alphabet)
		} else {
			b[i] = vrt.Byte(tag + "/" + itoa(i))
		}
	}
	return string(b)
}

func (g *Gen) Int(tag string) int {
	if g.Ints != nil {
		return g.Ints[vrt.Concrete(vrt.Choice(tag, len(g.Ints)))]
	}
	return vrt.Int(tag)
}

// Name returns a one-byte name over NameAlphabet without forking.
func (g *Gen) Name(tag string) string {
	if g.EmptyNames && vrt.Bool(tag+"/empty") {
		return "" // (symbol "") and (keyword "") exist although the reader cannot write them
	}
	al := g.NameAlphabet
	if al == "" {
		al = "ab"
	}
	return string([]byte{vrt.ByteIn(tag, al)})
}

// Key returns a map key / set member: a string or a keyword.
func (g *Gen) Key(tag string) string {
	n := g.Name(tag + "/n")
	if vrt.Bool(tag + "/kw") {
		return NewKeyword(n)
	}
	return n
}

// Elem returns a nested value; lazily materialised when g.Lazy is set.
func (g *Gen) Elem(tag string, d int) MalType {
	if g.Lazy {
		return vrt.Lazy(func() any { return g.Value(tag, d) })
	}
	return g.Value(tag, d)
}

// Value returns a symbolic lisp data value of nesting depth <= d.
func (g *Gen) Value(tag string, d int) MalType {
	nk := KList
	if d > 0 {
		nk = NKinds
	}
	k := vrt.Concrete(vrt.Choice(tag+"/k", nk))
	switch k {
	case KNil:
		return nil
	case KBool:
		return vrt.Bool(tag + "/b")
	case KInt:
		return g.Int(tag + "/i")
	case KString:
		return g.Str(tag + "/s")
	case KKeyword:
		return NewKeyword(g.Name(tag + "/kw"))
	case KSymbol:
		if g.NoSymbol {
			vrt.Assume(false)
		}
		return Symbol{Val: g.Name(tag + "/sy")}
	case KList, KVector:
		n := vrt.Concrete(vrt.Choice(tag+"/n", g.Width+1))
		elems := make([]MalType, n)
		for i := 0; i < n; i++ {
			elems[i] = g.Elem(tag+"/"+itoa(i), d-1)
		}
		if k == KList {
			return List{Val: elems}
		}
		return Vector{Val: elems}
	case KMap:
		if g.NoMap {
			vrt.Assume(false)
		}
		n := vrt.Concrete(vrt.Choice(tag+"/n", g.Width+1))
		if n == 0 && g.NilMaps && vrt.Bool(tag+"/nilmap") {
			return HashMap{} // an empty map whose Go map is nil (as (hash-map) / NewHashMap(nil) build it)
		}
		m := map[string]MalType{}
		for i := 0; i < n; i++ {
			key := g.Key(tag + "/k" + itoa(i))
			_, dup := m[key]
			vrt.Assume(!dup)
			m[key] = g.Elem(tag+"/v"+itoa(i), d-1)
		}
		return HashMap{Val: m}
	default:
		if g.NoSet {
			vrt.Assume(false)
		}
		n := vrt.Concrete(vrt.Choice(tag+"/n", g.Width+1))
		if n == 0 && g.NilMaps && vrt.Bool(tag+"/nilset") {
			return Set{} // an empty set whose Go map is nil (as (set nil) / NewSet(nil) build it)
		}
		m := map[string]struct{}{}
		for i := 0; i < n; i++ {
			key := g.Key(tag + "/m" + itoa(i))
			_, dup := m[key]
			vrt.Assume(!dup)
			m[key] = struct{}{}
		}
		return Set{Val: m}
	}
}

// RefEq is the independent structural equality (never calls Equal_Q).
func RefEq(a, b MalType) bool {
	if vrt.Same(a, b) {
		return true
	}
	switch x := a.(type) {
	case nil:
		return b == nil
	case bool:
		y, ok := b.(bool)
		return ok && x == y
	case int:
		y, ok := b.(int)
		return ok && x == y
	case string:
		y, ok := b.(string)
		return ok && x == y
	case Symbol:
		y, ok := b.(Symbol)
		return ok && x.Val == y.Val
	case List:
		return seqEq(x.Val, b)
	case Vector:
		return seqEq(x.Val, b)
	case HashMap:
		y, ok := b.(HashMap)
		if !ok || len(x.Val) != len(y.Val) {
			return false
		}
		for k, v := range x.Val {
			w, present := y.Val[k]
			if !present || !RefEq(v, w) {
				return false
			}
		}
		return true
	case Set:
		y, ok := b.(Set)
		if !ok || len(x.Val) != len(y.Val) {
			return false
		}
		for k := range x.Val {
			if _, present := y.Val[k]; !present {
				return false
			}
		}
		return true
	}
	return false
}

func seqEq(xs []MalType, b MalType) bool {
	var ys []MalType
	switch y := b.(type) {
	case List:
		ys = y.Val
	case Vector:
		ys = y.Val
	default:
		return false
	}
	if len(xs) != len(ys) {
		return false
	}
	for i := range xs {
		if !RefEq(xs[i], ys[i]) {
			return false
		}
	}
	return true
}

// Show renders a value for observations (concrete parts only).
func Show(v MalType) string {
	switch x := v.(type) {
	case nil:
		return "nil"
	case bool:
		if x {
			return "true"
		}
		return "false"
	case int:
		return "int"
	case string:
		if len(x) >= 2 && x[0] == 0xCA && x[1] == 0x9E {
			return ":kw"
		}
		return "str" + itoa(len(x))
	case Symbol:
		return "sym"
	case List:
		s := "("
		for i, e := range x.Val {
			if i > 0 {
				s += " "
			}
			s += Show(e)
		}
		return s + ")"
	case Vector:
		s := "["
		for i, e := range x.Val {
			if i > 0 {
				s += " "
			}
			s += Show(e)
		}
		return s + "]"
	case HashMap:
		return "{map" + itoa(len(x.Val)) + "}"
	case Set:
		return "#{set" + itoa(len(x.Val)) + "}"
	}
	return "?"
}

// RuneStr returns a valid-UTF-8 string of 0..max characters: each character is
// either a symbolic byte over the ASCII alphabet ascii (no fork) or one of the
// multi-byte characters in multi (one fork per alternative).
func RuneStr(tag string, max int, ascii string, multi []string) string {
	n := vrt.Concrete(vrt.Choice(tag+"/len", max+1))
	s := ""
	for i := 0; i < n; i++ {
		t := tag + "/" + itoa(i)
		k := vrt.Concrete(vrt.Choice(t+"/c", 1+len(multi)))
		if k == 0 {
			s += string([]byte{vrt.ByteIn(t, ascii)})
		} else {
			s += multi[k-1]
		}
	}
	return s
}

// HasFloat reports whether a value read from text contains a float.
func HasFloat(v MalType) bool {
	switch x := v.(type) {
	case float32, float64:
		return true
	case List:
		for _, e := range x.Val {
			if HasFloat(e) {
				return true
			}
		}
	case Vector:
		for _, e := range x.Val {
			if HasFloat(e) {
				return true
			}
		}
	case HashMap:
		for _, e := range x.Val {
			if HasFloat(e) {
				return true
			}
		}
	}
	return false
}
