package c14

import (
	"testing"

	"verif.example/h/vrt"
)

func TestReplay(t *testing.T) {
	Setup()
	vrt.ReplayMain(map[string]func(){"Harness_pairs": Harness_pairs, "Harness_triples": Harness_triples, "Harness_shared": Harness_shared})
}
