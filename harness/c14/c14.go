// Package c14: `=` is structural equality and an equivalence relation.
package c14

import (
	"github.com/jig/lisp/types"
	"verif.example/h/lib"
	"verif.example/h/vrt"
)

func gen() *lib.Gen {
	return &lib.Gen{Depth: vrt.Param("depth", 1), Width: vrt.Param("width", 2), StrLen: vrt.Param("strlen", 1),
		NameAlphabet: "ab", Alphabet: "ab\xCA\x9E"}
}

// Harness_pairs: Equal_Q coincides with RefEq, is reflexive and symmetric.
func Harness_pairs() {
	g := gen()
	a := g.Value("a", g.Depth)
	b := g.Value("b", g.Depth)
	want := lib.RefEq(a, b)
	got := types.Equal_Q(a, b)
	vrt.Observe("a", lib.Show(a))
	vrt.Observe("b", lib.Show(b))
	vrt.Assert(got == want, "Equal_Q(a,b) differs from structural equality")
	vrt.Assert(types.Equal_Q(b, a) == got, "Equal_Q not symmetric")
	vrt.Assert(types.Equal_Q(a, a), "Equal_Q not reflexive")
	vrt.Reach("end")
}

// Harness_triples: transitivity.
func Harness_triples() {
	g := gen()
	a := g.Value("a", g.Depth)
	b := g.Value("b", g.Depth)
	c := g.Value("c", g.Depth)
	if types.Equal_Q(a, b) && types.Equal_Q(b, c) {
		vrt.Assert(types.Equal_Q(a, c), "Equal_Q not transitive")
	}
	vrt.Reach("end")
}
