// Package c14: `=` is structural equality and an equivalence relation.
package c14

import (
	"context"

	"github.com/jig/lisp"
	"github.com/jig/lisp/env"
	"github.com/jig/lisp/lib/core"
	. "github.com/jig/lisp/types"
	"github.com/jig/lisp/types"
	"verif.example/h/lib"
	"verif.example/h/vrt"
)

func gen() *lib.Gen {
	return &lib.Gen{Depth: vrt.Param("depth", 1), Width: vrt.Param("width", 2), StrLen: vrt.Param("strlen", 1),
		NameAlphabet: "ab", Alphabet: "ab\xCA\x9E", EmptyNames: true, NilMaps: true}
}

// Harness_pairs: Equal_Q coincides with RefEq, is reflexive and symmetric.
func Harness_pairs() {
	g := gen()
	a := g.Value("a", g.Depth)
	b := g.Value("b", g.Depth)
	want := lib.RefEq(a, b)
	got := types.Equal_Q(a, b)
	vrt.Observe("a", lib.Show(a))
	vrt.Observe("b", lib.Show(b))
	vrt.Assert(got == want, "Equal_Q(a,b) differs from structural equality")
	vrt.Assert(types.Equal_Q(b, a) == got, "Equal_Q not symmetric")
	vrt.Assert(types.Equal_Q(a, a), "Equal_Q not reflexive")
	vrt.Reach("end")
}

// Harness_triples: transitivity.
func Harness_triples() {
	g := gen()
	a := g.Value("a", g.Depth)
	b := g.Value("b", g.Depth)
	c := g.Value("c", g.Depth)
	if types.Equal_Q(a, b) && types.Equal_Q(b, c) {
		vrt.Assert(types.Equal_Q(a, c), "Equal_Q not transitive")
	}
	vrt.Reach("end")
}

// Harness_shared: equality must not depend on how values are stored: values that
// share a backing array (subvec, rest, seq, vec, conj, with-meta of one another)
// and values read from different places of a text (different source positions).
func Harness_shared() {
	ctx := context.Background()
	base := Vector{Val: []MalType{1, 2, 3}}
	fn := func(name string, args ...MalType) MalType {
		f, err := Env.Get(Symbol{Val: name})
		if err != nil {
			panic(err)
		}
		v, err := f.(Func).Fn(ctx, args)
		vrt.Assume(err == nil)
		return v
	}
	derive := func(tag string) MalType {
		switch vrt.Concrete(vrt.Choice(tag, 9)) {
		case 0:
			return base
		case 1:
			return fn("subvec", base, vrt.Concrete(vrt.IntRange(tag+"/i", 0, 3)), vrt.Concrete(vrt.IntRange(tag+"/j", 0, 3)))
		case 2:
			return fn("rest", base)
		case 3:
			return fn("seq", base)
		case 4:
			return fn("vec", fn("rest", base))
		case 5:
			return fn("take", vrt.Concrete(vrt.IntRange(tag+"/n", 0, 3)), base)
		case 6:
			return fn("with-meta", base, 7)
		case 7:
			return HashMap{Val: map[string]MalType{"k": fn("subvec", base, 0, 2)}}
		default:
			return HashMap{Val: map[string]MalType{"k": base}}
		}
	}
	a := derive("a")
	b := derive("b")
	vrt.Assert(types.Equal_Q(a, b) == lib.RefEq(a, b), "Equal_Q differs from structural equality on values that share storage")
	vrt.Assert(types.Equal_Q(b, a) == lib.RefEq(a, b), "Equal_Q not symmetric on values that share storage")
	// the same data read from two different places of one text
	texts := []string{"{:k x}", "(a [b {:c d}])", "[x \"s\" :k 1]", "#{:a :b}", "{:k (x y)}"}
	t := texts[vrt.Concrete(vrt.Choice("text", len(texts)))]
	pad := []string{"", " ", "\n\n  ", ";c\n"}[vrt.Concrete(vrt.Choice("pad", 4))]
	both, err := lisp.READ("["+t+pad+" "+t+"]", nil, nil)
	vrt.Assert(err == nil, "text rejected")
	pair := both.(Vector).Val
	vrt.Assert(types.Equal_Q(pair[0], pair[1]), "the same data read from two places of a text is not equal")
	vrt.Reach("end")
}

var Env types.EnvType

func Setup() {
	Env = env.NewEnv()
	core.Load(Env)
}
