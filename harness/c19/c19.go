// Package c19: a program means the same however it is delivered.
package c19

import (
	"context"

	"github.com/jig/lisp"
	"github.com/jig/lisp/env"
	"github.com/jig/lisp/lib/call"
	"github.com/jig/lisp/lib/core/nscore"
	. "github.com/jig/lisp/types"
	"verif.example/h/lib"
	"verif.example/h/vrt"
)

var (
	Base  EnvType
	Trace []MalType
)

func trace_BANG(v MalType) (MalType, error) { Trace = append(Trace, v); return v, nil }

func Setup() {
	Base = env.NewEnv()
	if err := nscore.Load(Base); err != nil {
		panic(err)
	}
	if err := nscore.LoadInput(Base); err != nil {
		panic(err)
	}
	call.CallOverrideFN(Base, "trace!", trace_BANG)
	// an embedding program may hold several environments: another one is loaded after Base; nothing a program
	// does on Base may end up there (load-file evaluates through the eval builtin of the environment it was loaded into)
	Decoy = env.NewEnv()
	if err := nscore.Load(Decoy); err != nil {
		panic(err)
	}
	if err := nscore.LoadInput(Decoy); err != nil {
		panic(err)
	}
}

var Decoy EnvType

// filler: layout between tokens: at least one separator, then 0..max symbolic units.
func filler(tag string, max int, need bool) string {
	s := ""
	if need {
		s = " "
	}
	n := vrt.Concrete(vrt.Choice(tag+"/n", max+1))
	for i := 0; i < n; i++ {
		t := tag + "/" + string(rune('0'+i))
		switch vrt.Concrete(vrt.Choice(t, 5)) {
		case 0:
			s += " "
		case 1:
			s += "\n"
		case 2:
			s += "\r\n"
		case 3:
			s += "\t"
		default:
			s += ";" + string([]byte{vrt.ByteIn(t+"/c", "a();\"$ ")}) + "\n"
		}
	}
	return s
}

var nums = []string{"0", "3", "-7"}

// form returns the tokens of one top-level form.
func form(tag string) []string {
	n := nums[vrt.Concrete(vrt.Choice(tag+"/num", len(nums)))]
	switch vrt.Concrete(vrt.Choice(tag+"/form", 10)) {
	case 0:
		return []string{"(", "def", "a", n, ")"}
	case 1:
		return []string{"(", "def", "f", "(", "fn", "[", "x", "]", "(", "trace!", "(", "+", "x", n, ")", ")", ")", ")"}
	case 2:
		return []string{"(", "f", n, ")"}
	case 3:
		return []string{"(", "do", "(", "defmacro", "m", "(", "fn", "[", "x", "]", "(", "list", "'", "trace!", "x", ")", ")", ")", "(", "m", n, ")", ")"}
	case 4:
		return []string{"(", "try", "(", "throw", n, ")", "(", "catch", "e", "(", "trace!", "e", ")", ")", ")"}
	case 5: // string constants: with comment/bracket characters, raw strings with a CR LF pair inside, a tab
		// (a quoted literal cannot hold a line break; a raw string can)
		str := []string{"\"s;(\"", "¬a\r\nb¬", "¬{\"a\":\r\n1}¬", "\"\t ;\""}[vrt.Concrete(vrt.Choice(tag+"/str", 4))]
		return []string{"(", "trace!", "'", "(", "a", ":k", str, ")", ")"}
	case 6:
		return []string{"(", "throw", "{", ":code", n, "}", ")"}
	case 7: // the text of a caught arity error is part of what the program computes
		return []string{"(", "do", "(", "def", "pair", "(", "fn", "[", "p", "q", "]", "p", ")", ")", "(", "try", "(", "pair", n, ")", "(", "catch", "e", "(", "trace!", "(", "str", "e", ")", ")", ")", ")", ")"}
	case 8: // ... and of a caught unbound-symbol error
		return []string{"(", "try", "(", "trace!", "nosuch", ")", "(", "catch", "e", "(", "trace!", "(", "str", "e", ")", ")", ")", ")"}
	default: // data read from different places of the text is equal when it is structurally equal
		return []string{"(", "trace!", "(", "list", "(", "=", "{", ":k", "'", "x", "}", "{", ":k", "'", "x", "}", ")", "(", "=", "'", "(", "a", "[", "b", "]", ")", "'", "(", "a", "[", "b", "]", ")", ")", ")", ")"}
	}
}

// render joins tokens with symbolic filler (a separator is needed between atoms only).
func render(tag string, toks []string, max int) string {
	s := ""
	for i, t := range toks {
		if i > 0 {
			prev := toks[i-1]
			need := !(prev == "(" || prev == "[" || prev == "{" || prev == "'" || t == ")" || t == "]" || t == "}")
			m := max
			if stride := vrt.Param("stride", 1); i%stride != stride/2 {
				m = 0 // symbolic layout only at every stride-th gap; a plain separator elsewhere
			}
			s += filler(tag+"/f"+string(rune('a'+i)), m, need)
		}
		s += t
	}
	return s
}

// build constructs the AST of a token sequence without the reader (the "AST built from Go" route):
// lists, vectors, maps with keyword keys, quote, integers, keywords, strings, raw strings, symbols.
func build(toks []string, pos int) (MalType, int) {
	t := toks[pos]
	seq := func(closer string) ([]MalType, int) {
		var out []MalType
		p := pos + 1
		for toks[p] != closer {
			var v MalType
			v, p = build(toks, p)
			out = append(out, v)
		}
		return out, p + 1
	}
	switch {
	case t == "(":
		el, p := seq(")")
		return List{Val: el}, p
	case t == "[":
		el, p := seq("]")
		return Vector{Val: el}, p
	case t == "{":
		el, p := seq("}")
		m := map[string]MalType{}
		for i := 0; i+1 < len(el); i += 2 {
			m[el[i].(string)] = el[i+1]
		}
		return HashMap{Val: m}, p
	case t == "'":
		v, p := build(toks, pos+1)
		return List{Val: []MalType{Symbol{Val: "quote"}, v}}, p
	case t[0] == '"':
		return t[1 : len(t)-1], pos + 1
	case len(t) > 2 && t[0] == 0xC2 && t[1] == 0xAC: // ¬...¬
		return t[2 : len(t)-2], pos + 1
	case t[0] == ':':
		return NewKeyword(t[1:]), pos + 1
	case t[0] == '-' && len(t) > 1 || t[0] >= '0' && t[0] <= '9':
		n, neg := 0, false
		for i := 0; i < len(t); i++ {
			if t[i] == '-' {
				neg = true
			} else {
				n = n*10 + int(t[i]-'0')
			}
		}
		if neg {
			n = -n
		}
		return n, pos + 1
	}
	return Symbol{Val: t}, pos + 1
}

func strip(v MalType) MalType {
	switch x := v.(type) {
	case List:
		out := make([]MalType, len(x.Val))
		for i, e := range x.Val {
			out[i] = strip(e)
		}
		return List{Val: out}
	case Vector:
		out := make([]MalType, len(x.Val))
		for i, e := range x.Val {
			out[i] = strip(e)
		}
		return Vector{Val: out}
	case HashMap:
		out := map[string]MalType{}
		for k, e := range x.Val {
			out[k] = strip(e)
		}
		return HashMap{Val: out}
	case Symbol:
		return Symbol{Val: x.Val}
	}
	return v
}

type outcome struct {
	val    MalType
	failed bool
	thrown MalType
	trace  []MalType
	a, f   MalType
	aOK    bool
	fOK    bool
}

func same(a, b MalType) bool {
	switch x := a.(type) {
	case MalFunc:
		_, ok := b.(MalFunc)
		return ok
	case Func:
		_, ok := b.(Func)
		return ok
	case error:
		_, ok := b.(error)
		return ok
	case List:
		y, ok := b.(List)
		return ok && sameSeq(x.Val, y.Val)
	case Vector:
		y, ok := b.(Vector)
		return ok && sameSeq(x.Val, y.Val)
	case HashMap:
		y, ok := b.(HashMap)
		if !ok || len(x.Val) != len(y.Val) {
			return false
		}
		for k, v := range x.Val {
			w, present := y.Val[k]
			if !present || !same(v, w) {
				return false
			}
		}
		return true
	}
	return lib.RefEq(a, b)
}

func sameSeq(x, y []MalType) bool {
	if len(x) != len(y) {
		return false
	}
	for i := range x {
		if !same(x[i], y[i]) {
			return false
		}
	}
	return true
}

func finish(e EnvType, v MalType, err error) outcome {
	o := outcome{val: v, failed: err != nil, trace: append([]MalType{}, Trace...)}
	if err != nil {
		if ev, ok := err.(interface{ ErrorValue() MalType }); ok {
			o.thrown = ev.ErrorValue()
		} else {
			o.thrown = err
		}
	}
	av, aerr := e.Get(Symbol{Val: "a"})
	o.a, o.aOK = av, aerr == nil
	fv, ferr := e.Get(Symbol{Val: "f"})
	o.f, o.fOK = fv, ferr == nil
	return o
}

func compare(route string, base, o outcome, withValue bool) {
	vrt.Assert(base.failed == o.failed, route+": fails/succeeds differently from READ+EVAL of the text")
	if withValue && !base.failed && !o.failed {
		vrt.Assert(same(base.val, o.val), route+": different result")
	}
	if base.failed && o.failed {
		vrt.Assert(same(base.thrown, o.thrown), route+": different thrown object")
	}
	vrt.Assert(len(base.trace) == len(o.trace), route+": different number of effects")
	for i := range base.trace {
		if i < len(o.trace) {
			vrt.Assert(same(base.trace[i], o.trace[i]), route+": different effects")
		}
	}
	vrt.Assert(base.aOK == o.aOK && base.fOK == o.fOK, route+": different global definitions")
	if base.aOK && o.aOK {
		vrt.Assert(same(base.a, o.a), route+": different value of a global")
	}
}

// Harness_routes: the delivery route does not change result, error, effects or globals.
func Harness_routes() {
	maxFill := vrt.Param("fill", 1)
	nforms := 1 + vrt.Concrete(vrt.Choice("nforms", vrt.Param("forms", 2)))
	var texts []string
	built := []MalType{Symbol{Val: "do"}}
	for i := 0; i < nforms; i++ {
		toks := form("f" + string(rune('0'+i)))
		texts = append(texts, render("t"+string(rune('0'+i)), toks, maxFill))
		b, _ := build(toks, 0)
		built = append(built, b)
	}
	// the sequence of forms as a file would contain them, with layout before, between and after
	body := filler("pre", maxFill, false)
	for i, t := range texts {
		if i > 0 {
			body += filler("sep"+string(rune('0'+i)), maxFill, true)
		}
		body += t
	}
	tail := filler("post", maxFill, false)
	if vrt.Bool("trailingcomment") {
		tail += ";" + string([]byte{vrt.ByteIn("tc", "a)(\"")}) // a comment without final newline
	}
	fileText := body + tail
	doText := "(do " + body + "\n)" + tail
	vrt.Observe("file", fileText)
	ctx := context.Background()

	// R0: text -> READ with a module name -> EVAL
	e0 := env.NewSubordinateEnv(Base)
	Trace = nil
	ast0, rerr := lisp.READ(doText, NewCursorFile("m"), e0)
	vrt.Assert(rerr == nil, "the program text is rejected by READ")
	v0, err0 := lisp.EVAL(ctx, ast0, e0)
	base := finish(e0, v0, err0)

	route := vrt.Concrete(vrt.Choice("route", 6))
	e := env.NewSubordinateEnv(Base)
	Trace = nil
	switch route {
	case 0: // R1: no module name
		ast, err := lisp.READ(doText, nil, e)
		vrt.Assert(err == nil, "no module name: text rejected")
		v, eerr := lisp.EVAL(ctx, ast, e)
		compare("READ without a module name", base, finish(e, v, eerr), true)
	case 1: // R2: the same AST without any source positions
		v, eerr := lisp.EVAL(ctx, strip(ast0), e)
		compare("AST without source positions", base, finish(e, v, eerr), true)
	case 2: // R3: the AST re-read from its printed form
		ast, err := lisp.READ(lisp.PRINT(ast0), nil, e)
		vrt.Assert(err == nil, "printed form of the program rejected by READ")
		v, eerr := lisp.EVAL(ctx, ast, e)
		compare("AST re-read from its printed form", base, finish(e, v, eerr), true)
	case 3: // R4: forms fed one by one to REPL (the first failing form ends the program)
		var last MalType
		var lerr error
		for _, t := range texts {
			ast, err := lisp.READ(t, NewCursorFile("REPL"), e)
			vrt.Assert(err == nil, "a single form is rejected by READ")
			last, lerr = lisp.EVAL(ctx, ast, e)
			if lerr != nil {
				break
			}
		}
		compare("forms fed one by one", base, finish(e, last, lerr), true)
	case 4: // R5: the AST built from Go without the reader
		v, eerr := lisp.EVAL(ctx, List{Val: built}, e)
		compare("AST built from Go without the reader", base, finish(e, v, eerr), true)
	default: // R6: load-file of the file text
		vrt.SetFile("vrt_prog.lisp", fileText)
		_, eerr := lisp.EVAL(ctx, List{Val: []MalType{Symbol{Val: "load-file"}, "vrt_prog.lisp"}}, e)
		o := finish(e, nil, eerr)
		// load-file evaluates in the root environment: read the globals there
		compare("load-file", base, o, false)
	}
	vrt.Reach("end")
}

// Harness_routes_plain: the same relation without symbolic layout (parameter fill=0), so that every
// pair of forms crossed with every route is covered exhaustively.
func Harness_routes_plain() { Harness_routes() }
