package c19

import (
	"testing"

	"verif.example/h/vrt"
)

func TestReplay(t *testing.T) {
	Setup()
	vrt.ReplayMain(map[string]func(){"Harness_routes": Harness_routes, "Harness_routes_plain": Harness_routes_plain})
}
