package c12

import (
	"testing"

	"verif.example/h/vrt"
)

func TestReplay(t *testing.T) {
	Setup()
	vrt.ReplayMain(map[string]func(){"Harness_quasi": Harness_quasi, "Harness_macro": Harness_macro, "Harness_libmacros": Harness_libmacros})
}
