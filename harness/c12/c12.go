// Package c12: macro calls equal their expansion; quasiquote builds exactly the template.
package c12

import (
	"context"

	"github.com/jig/lisp"
	"github.com/jig/lisp/env"
	"github.com/jig/lisp/lib/call"
	. "github.com/jig/lisp/types"
	"verif.example/h/lib"
	"verif.example/h/ref"
	"verif.example/h/vrt"
)

var (
	Base  EnvType
	Trace []MalType
)

func trace_BANG(v MalType) (MalType, error) { Trace = append(Trace, v); return v, nil }

func Setup() {
	Base = lib.StdEnv()
	call.CallOverrideFN(Base, "trace!", trace_BANG)
	ref.EqFn = lib.RefEq
}

func sym(n string) MalType       { return Symbol{Val: n} }
func lst(xs ...MalType) MalType  { return List{Val: xs} }
func vect(xs ...MalType) MalType { return Vector{Val: xs} }

// ---- (Q) templates

// bound symbols: s0, s1 hold lists (for splicing), v0 an integer, v1 a vector
var bindNames = []string{"s0", "s1", "v0", "v1"}

func template(tag string, d, w int, top bool) MalType {
	nk := 5 // leaves: integer, symbol, unquote, splice-unquote, map literal
	if d > 0 {
		nk = 7
	}
	k := vrt.Concrete(vrt.Choice(tag+"/k", nk))
	if k == 0 && !top && vrt.Bool(tag+"/marker") {
		// a vector that merely *contains* a marker symbol as its first element is literal data
		return Vector{Val: []MalType{sym(lib.Pick(tag+"/mk", []string{"splice-unquote", "unquote", "quasiquote"})), sym("s0")}}
	}
	switch k {
	case 0:
		return vrt.IntRange(tag+"/i", 0, 9)
	case 1:
		return sym(lib.Pick(tag+"/s", []string{"zz", "s0", "unquote", "splice-unquote"})) // symbols are returned literally
	case 2:
		return lst(sym("unquote"), unquoted(tag+"/u"))
	case 3:
		if top {
			vrt.Assume(false) // a splice needs an enclosing sequence
		}
		return lst(sym("splice-unquote"), sym(lib.Pick(tag+"/sp", []string{"s0", "s1", "v1"})))
	case 4:
		// a map literal inside a template (at any depth) is returned literally: its values are not templates
		return HashMap{Val: map[string]MalType{NewKeyword("k"): lib.PickVal(tag+"/mv", []MalType{lst(sym("unquote"), sym("v0")), sym("zz"), lst(sym("+"), 1, 2)})}}
	case 5, 6:
		n := vrt.Concrete(vrt.Choice(tag+"/n", w+1))
		elems := make([]MalType, n)
		for i := range elems {
			elems[i] = template(tag+"/"+string(rune('0'+i)), d-1, w, false)
		}
		if k == 6 {
			return Vector{Val: elems}
		}
		if n > 0 {
			// a list template whose first element is the symbol unquote / splice-unquote /
			// quasiquote is a different construct: keep plain lists plain
			if s, ok := elems[0].(Symbol); ok {
				vrt.Assume(s.Val != "unquote" && s.Val != "splice-unquote")
			}
		}
		return List{Val: elems}
	}
	panic("unreachable")
}

// unquoted expressions: a bound symbol or a call with an effect
func unquoted(tag string) MalType {
	switch vrt.Concrete(vrt.Choice(tag, 4)) {
	case 0:
		return sym("v0")
	case 1:
		return sym("s0")
	case 2:
		return sym("v1")
	default:
		return lst(sym("trace!"), vrt.IntRange(tag+"/t", 0, 9))
	}
}

func sameValue(real, want MalType) bool {
	switch w := want.(type) {
	case *ref.Closure:
		f, ok := real.(MalFunc)
		return ok && f.IsMacro == w.IsMacro
	case ref.Builtin:
		_, ok := real.(Func)
		return ok
	case ref.ErrorObject:
		return true
	case List:
		r, ok := real.(List) // kind-sensitive: vectors stay vectors
		return ok && sameSeq(r.Val, w.Val)
	case Vector:
		r, ok := real.(Vector)
		return ok && sameSeq(r.Val, w.Val)
	case HashMap:
		r, ok := real.(HashMap)
		if !ok || len(r.Val) != len(w.Val) {
			return false
		}
		for k, v := range w.Val {
			rv, present := r.Val[k]
			if !present || !sameValue(rv, v) {
				return false
			}
		}
		return true
	}
	return lib.RefEq(real, want)
}

func sameSeq(r, w []MalType) bool {
	if len(r) != len(w) {
		return false
	}
	for i := range w {
		if !sameValue(r[i], w[i]) {
			return false
		}
	}
	return true
}

func bindings(e EnvType, g *ref.Scope) {
	n0 := vrt.Concrete(vrt.Choice("s0/len", 3))
	n1 := vrt.Concrete(vrt.Choice("s1/len", 3))
	mk := func(tag string, n int) []MalType {
		out := make([]MalType, n)
		for i := range out {
			out[i] = vrt.IntRange(tag+string(rune('0'+i)), 10, 19)
		}
		return out
	}
	vals := map[string]MalType{
		"s0": List{Val: mk("s0/", n0)},
		"s1": List{Val: mk("s1/", n1)},
		"v0": vrt.IntRange("v0", 20, 29),
		"v1": Vector{Val: mk("v1/", 1)},
	}
	for _, n := range bindNames {
		e.Set(Symbol{Val: n}, vals[n])
		g.Set(n, vals[n])
	}
}

func compareTraces(m *ref.Machine) {
	vrt.Assert(len(Trace) == len(m.Trace), "number of effects differs from the definition")
	for i := range m.Trace {
		vrt.Assert(sameValue(Trace[i], m.Trace[i]), "effect order/value differs from the definition")
	}
}

// Harness_quasi: EVAL of (quasiquote T) equals the template with its holes filled.
func Harness_quasi() {
	t := template("t", vrt.Param("depth", 2), vrt.Param("width", 2), true)
	prog := lst(sym("quasiquote"), t)
	e := env.NewSubordinateEnv(Base)
	m := &ref.Machine{Fuel: 400}
	g := ref.Globals()
	bindings(e, g)
	want, th := m.Eval(prog, g)
	vrt.Assume(!m.OutOf && !m.Unspec)
	Trace = nil
	got, err := lisp.EVAL(context.Background(), prog, e)
	if th != nil {
		vrt.Assert(err != nil, "quasiquote: value where the definition prescribes an error")
	} else {
		vrt.Assert(err == nil, "quasiquote: error where the definition prescribes a value")
		vrt.Assert(sameValue(got, want), "quasiquote: result differs from the filled template (in place, in order, vectors stay vectors)")
	}
	compareTraces(m)
	vrt.Reach("end")
}

// ---- (M) macros

// operands carry effects so that an evaluated operand is visible in the trace
func operandForm(tag string) MalType {
	switch vrt.Concrete(vrt.Choice(tag, 4)) {
	case 0:
		return lst(sym("trace!"), vrt.IntRange(tag+"/t", 0, 9))
	case 1:
		return vrt.IntRange(tag+"/i", 0, 9)
	case 2:
		return lst(sym("list"), lst(sym("trace!"), vrt.IntRange(tag+"/t", 0, 9)), sym("local"))
	default:
		return sym("local") // a caller-local name: the expansion is evaluated in the caller's scope
	}
}

// macro body templates over parameters a, b (and rest r)
func macroBody(tag string, rest bool) MalType {
	uq := func(n string) MalType { return lst(sym("unquote"), sym(n)) }
	n := 11
	if rest {
		n = 12
	}
	switch vrt.Concrete(vrt.Choice(tag, n)) {
	case 0: // (list a b)
		return lst(sym("quasiquote"), lst(sym("list"), uq("a"), uq("b")))
	case 1: // a twice: the operand's effects happen twice
		return lst(sym("quasiquote"), lst(sym("list"), uq("a"), uq("a")))
	case 2: // b before a
		return lst(sym("quasiquote"), lst(sym("do"), uq("b"), uq("a")))
	case 3: // only a is used: b must never be evaluated
		return lst(sym("quasiquote"), lst(sym("if"), true, uq("a")))
	case 4: // expands to another macro (m2 is (fn [x] `(list ~x ~x)))
		return lst(sym("quasiquote"), lst(sym("m2"), uq("b")))
	case 5: // expands to itself with a smaller argument until a is not a list
		return lst(sym("if"), lst(sym("list?"), sym("a")),
			lst(sym("quasiquote"), lst(sym("m"), lst(sym("unquote"), lst(sym("first"), sym("a"))), uq("b"))),
			lst(sym("quasiquote"), lst(sym("list"), uq("a"), uq("b"))))
	case 6: // expands to a vector: its elements are evaluated in the caller's scope
		return lst(sym("quasiquote"), Vector{Val: []MalType{uq("a"), uq("b"), sym("local")}})
	case 7: // expands to a hash-map whose value is the operand form
		return lst(sym("hash-map"), NewKeyword("k"), sym("a"))
	case 8: // expands to the operand itself (a symbol, an atom or a call)
		return sym("a")
	case 9: // expands to a vector nested in a call
		return lst(sym("quasiquote"), lst(sym("list"), Vector{Val: []MalType{uq("b")}}, uq("a")))
	case 10: // an effect at expansion time: happens once per call, before any operand is evaluated
		return lst(sym("do"), lst(sym("trace!"), NewKeyword("expanding")), lst(sym("quasiquote"), lst(sym("list"), uq("a"), uq("b"))))
	default: // & rest spliced
		return lst(sym("quasiquote"), lst(sym("list"), uq("a"), lst(sym("splice-unquote"), sym("r"))))
	}
}

func macroProgram() (def MalType, callForm MalType) {
	rest := vrt.Bool("rest")
	params := []MalType{sym("a"), sym("b")}
	if rest {
		params = []MalType{sym("a"), sym("&"), sym("r")}
	}
	body := macroBody("body", rest)
	def = lst(sym("do"),
		lst(sym("defmacro"), sym("m2"), lst(sym("fn"), vect(sym("x")), lst(sym("quasiquote"), lst(sym("list"), lst(sym("unquote"), sym("x")), lst(sym("unquote"), sym("x")))))),
		lst(sym("defmacro"), sym("m"), lst(sym("fn"), Vector{Val: params}, body)),
		lst(sym("def"), sym("f"), lst(sym("fn"), Vector{Val: params}, lst(sym("list"), sym("a")))))
	argc := 2
	if rest {
		argc = 1 + vrt.Concrete(vrt.Choice("argc", 3))
	}
	head := "m"
	if vrt.Bool("plainfn") {
		head = "f" // an ordinary function evaluates its operands first
	}
	elems := []MalType{sym(head)}
	for i := 0; i < argc; i++ {
		elems = append(elems, operandForm("op"+string(rune('0'+i))))
	}
	callForm = lst(sym("let"), vect(sym("local"), 77), List{Val: elems})
	return def, List{Val: elems}
}

// Harness_macro: a macro call behaves as the definition says and as its own expansion.
func Harness_macro() {
	def, callForm := macroProgram()
	inLet := func(f MalType) MalType { return lst(sym("let"), vect(sym("local"), 77), f) }
	// reference
	m := &ref.Machine{Fuel: 600}
	g := ref.Globals()
	g.Set("list?", ref.Builtin{Name: "list?", Fn: func(m *ref.Machine, a []MalType) (MalType, *ref.Thrown) {
		_, ok := a[0].(List)
		return ok, nil
	}})
	_, th0 := m.Eval(def, g)
	vrt.Assume(th0 == nil)
	want, th := m.Eval(inLet(callForm), g)
	vrt.Assume(!m.OutOf && !m.Unspec)
	// real: the call
	e1 := env.NewSubordinateEnv(Base)
	_, err0 := lisp.EVAL(context.Background(), def, e1)
	vrt.Assert(err0 == nil, "macro definitions rejected")
	Trace = nil
	got, err := lisp.EVAL(context.Background(), inLet(callForm), e1)
	if th != nil {
		vrt.Assert(err != nil, "macro call: value where the definition prescribes an error")
	} else {
		vrt.Assert(err == nil, "macro call: error where the definition prescribes a value")
		vrt.Assert(sameValue(got, want), "macro call: result differs from the definition")
	}
	compareTraces(m)
	callTrace := append([]MalType{}, Trace...)
	// real: evaluating the macroexpand result in the same scope
	Trace = nil
	exp, errX := lisp.EVAL(context.Background(), lst(sym("macroexpand"), callForm), e1)
	vrt.Assert(len(Trace) == 0 || errX != nil || true, "")
	expTraceLen := len(Trace)
	if errX == nil {
		if l, ok := exp.(List); ok && len(l.Val) > 0 {
			if s, ok := l.Val[0].(Symbol); ok {
				v, gerr := e1.Get(s)
				if gerr == nil {
					if mf, ok := v.(MalFunc); ok {
						vrt.Assert(!mf.GetMacro(), "head of the macroexpand result is still a macro")
					}
				}
			}
		}
		got2, err2 := lisp.EVAL(context.Background(), inLet(exp), e1)
		vrt.Assert((err2 == nil) == (err == nil), "evaluating the expansion fails/succeeds differently from the call")
		if err == nil && err2 == nil {
			vrt.Assert(sameFunctions(got, got2), "evaluating the expansion gives a different result than the call")
		}
		// effects of expanding + evaluating the expansion equal the effects of the call
		vrt.Assert(len(Trace) == len(callTrace), "evaluating the expansion has different effects than the call")
		for i := range callTrace {
			if i < len(Trace) {
				vrt.Assert(lib.RefEq(Trace[i], callTrace[i]), "evaluating the expansion has different effects than the call")
			}
		}
	}
	_ = expTraceLen
	vrt.Reach("end")
}

// sameFunctions: structural equality in which function values are opaque and equal.
func sameFunctions(a, b MalType) bool {
	switch x := a.(type) {
	case MalFunc:
		_, ok := b.(MalFunc)
		return ok
	case Func:
		_, ok := b.(Func)
		return ok
	case List:
		y, ok := b.(List)
		if !ok || len(x.Val) != len(y.Val) {
			return false
		}
		for i := range x.Val {
			if !sameFunctions(x.Val[i], y.Val[i]) {
				return false
			}
		}
		return true
	case Vector:
		y, ok := b.(Vector)
		if !ok || len(x.Val) != len(y.Val) {
			return false
		}
		for i := range x.Val {
			if !sameFunctions(x.Val[i], y.Val[i]) {
				return false
			}
		}
		return true
	}
	return lib.RefEq(a, b)
}

// Harness_libmacros: the library macros cond, and, or, ->, ->> equal their expansion.
func Harness_libmacros() {
	op := func(tag string) MalType {
		switch vrt.Concrete(vrt.Choice(tag, 4)) {
		case 0:
			return lst(sym("trace!"), vrt.IntRange(tag+"/t", 0, 9))
		case 1:
			return lst(sym("trace!"), nil)
		case 2:
			return lst(sym("trace!"), false)
		default:
			return vrt.IntRange(tag+"/i", 0, 9)
		}
	}
	n := vrt.Concrete(vrt.Choice("n", vrt.Param("maxops", 3)+1))
	var f MalType
	ops := make([]MalType, n)
	for i := range ops {
		ops[i] = op("o" + string(rune('0'+i)))
	}
	switch vrt.Concrete(vrt.Choice("macro", 5)) {
	case 0:
		f = List{Val: append([]MalType{sym("cond")}, ops...)}
	case 1:
		f = List{Val: append([]MalType{sym("and")}, ops...)}
	case 2:
		f = List{Val: append([]MalType{sym("or")}, ops...)}
	case 3:
		steps := []MalType{sym("->"), op("init")}
		for i := 0; i < n; i++ {
			steps = append(steps, lst(sym("list"), ops[i]))
		}
		f = List{Val: steps}
	default:
		steps := []MalType{sym("->>"), op("init")}
		for i := 0; i < n; i++ {
			steps = append(steps, lst(sym("list"), ops[i]))
		}
		f = List{Val: steps}
	}
	e1 := env.NewSubordinateEnv(Base)
	Trace = nil
	got, err := lisp.EVAL(context.Background(), f, e1)
	callTrace := append([]MalType{}, Trace...)
	Trace = nil
	exp, errX := lisp.EVAL(context.Background(), lst(sym("macroexpand"), f), e1)
	vrt.Assert(errX != nil || len(Trace) == 0, "macroexpand evaluated an operand")
	if errX == nil {
		if l, ok := exp.(List); ok && len(l.Val) > 0 {
			if s, ok := l.Val[0].(Symbol); ok {
				if v, gerr := e1.Get(s); gerr == nil {
					if mf, ok := v.(MalFunc); ok {
						vrt.Assert(!mf.GetMacro(), "head of the macroexpand result is still a macro")
					}
				}
			}
		}
		got2, err2 := lisp.EVAL(context.Background(), exp, e1)
		vrt.Assert((err2 == nil) == (err == nil), "library macro: the expansion fails/succeeds differently from the call")
		if err == nil && err2 == nil {
			vrt.Assert(lib.RefEq(got, got2), "library macro: the expansion gives a different result than the call")
		}
		vrt.Assert(len(Trace) == len(callTrace), "library macro: the expansion has different effects than the call")
		for i := range callTrace {
			if i < len(Trace) {
				vrt.Assert(lib.RefEq(Trace[i], callTrace[i]), "library macro: the expansion has different effects than the call")
			}
		}
	}
	vrt.Reach("end")
}

// MacroProgram returns macro definitions and a call form (for other properties' harnesses).
func MacroProgram() (def MalType, callForm MalType) { return macroProgram() }
