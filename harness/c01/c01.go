// Package c01: core evaluation matches the language definition (results and effect order).
package c01

import (
	"context"

	"github.com/jig/lisp"
	"github.com/jig/lisp/env"
	"github.com/jig/lisp/lib/call"
	"github.com/jig/lisp/lib/core"
	. "github.com/jig/lisp/types"
	"verif.example/h/lib"
	"verif.example/h/ref"
	"verif.example/h/vrt"
)

var (
	Base  EnvType
	Trace []MalType
)

func trace_BANG(v MalType) (MalType, error) {
	Trace = append(Trace, v)
	return v, nil
}

func Setup() {
	Base = env.NewEnv()
	core.Load(Base)
	call.CallOverrideFN(Base, "trace!", trace_BANG)
	ref.EqFn = lib.RefEq
}

func sym(n string) MalType       { return Symbol{Val: n} }
func lst(xs ...MalType) MalType  { return List{Val: xs} }
func vect(xs ...MalType) MalType { return Vector{Val: xs} }

var builtinNames = []string{"+", "-", "<", "=", "list", "count", "nil?"}
var globalNames = []string{"g1", "g2"}
var localNames = []string{"x", "y"}

type gen struct {
	width int
}

// node returns a lazily materialised expression of depth <= d.
func (g *gen) node(tag string, d int, scope []string) MalType {
	return vrt.Lazy(func() any { return g.expr(tag, d, scope) })
}

func (g *gen) sub(tag string, d int, scope []string, max int) []MalType {
	n := vrt.Concrete(vrt.Choice(tag+"/n", max+1))
	out := make([]MalType, n)
	for i := range out {
		out[i] = g.node(tag+"/"+string(rune('0'+i)), d, scope)
	}
	return out
}

func (g *gen) symbol(tag string, scope []string) MalType {
	// in value position two builtins stand for all of them (they are opaque function values)
	names := append(append(append([]string{}, scope...), globalNames...), "+", "list")
	names = append(names, "zz") // never bound
	return sym(lib.Pick(tag, names))
}

func (g *gen) expr(tag string, d int, scope []string) MalType {
	nk := 5
	if d > 0 {
		nk = 13
	}
	switch vrt.Concrete(vrt.Choice(tag+"/k", nk)) {
	case 0:
		return vrt.Int(tag + "/i")
	case 1:
		return nil
	case 2:
		return true
	case 3:
		return false
	case 4:
		return g.symbol(tag+"/s", scope)
	case 5: // (quote D): symbols and lists are what a second evaluation would change
		switch vrt.Concrete(vrt.Choice(tag+"/q", 3)) {
		case 0:
			return lst(sym("quote"), sym("zz"))
		case 1:
			return lst(sym("quote"), lst(sym("zz"), vrt.Int(tag+"/qi")))
		}
		return lst(sym("quote"), lst())
	case 6: // if with or without else
		if vrt.Bool(tag + "/else") {
			return lst(sym("if"), g.node(tag+"/c", d-1, scope), g.node(tag+"/a", d-1, scope), g.node(tag+"/b", d-1, scope))
		}
		return lst(sym("if"), g.node(tag+"/c", d-1, scope), g.node(tag+"/a", d-1, scope))
	case 7:
		return List{Val: append([]MalType{sym("do")}, g.sub(tag+"/e", d-1, scope, g.width)...)}
	case 8: // let with 0..2 sequential bindings
		nb := vrt.Concrete(vrt.Choice(tag+"/nb", 3))
		inner := append([]string{}, scope...)
		var binds []MalType
		for i := 0; i < nb; i++ {
			name := lib.Pick(tag+"/bn"+string(rune('0'+i)), localNames)
			binds = append(binds, sym(name), g.node(tag+"/bv"+string(rune('0'+i)), d-1, inner))
			inner = append(inner, name)
		}
		return List{Val: append([]MalType{sym("let"), Vector{Val: binds}}, g.sub(tag+"/body", d-1, inner, g.width)...)}
	case 9: // fn with 0..2 parameters and optional & rest
		np := vrt.Concrete(vrt.Choice(tag+"/np", 3))
		inner := append([]string{}, scope...)
		var ps []MalType
		for i := 0; i < np; i++ {
			name := localNames[i]
			ps = append(ps, sym(name))
			inner = append(inner, name)
		}
		if vrt.Bool(tag + "/rest") {
			ps = append(ps, sym("&"), sym("r"))
			inner = append(inner, "r")
		}
		return List{Val: append([]MalType{sym("fn"), Vector{Val: ps}}, g.sub(tag+"/body", d-1, inner, g.width)...)}
	case 10:
		return lst(sym("def"), sym(lib.Pick(tag+"/g", globalNames)), g.node(tag+"/v", d-1, scope))
	case 11: // application of a builtin or of an arbitrary expression
		var head MalType
		if vrt.Bool(tag + "/hb") {
			head = sym(lib.Pick(tag+"/h", builtinNames))
		} else {
			head = g.node(tag+"/h", d-1, scope)
		}
		return List{Val: append([]MalType{head}, g.sub(tag+"/arg", d-1, scope, g.width)...)}
	default:
		return lst(sym("trace!"), g.node(tag+"/t", d-1, scope))
	}
}

// sameValue compares a value of the real evaluator with one of the reference.
func sameValue(real, want MalType) bool {
	switch w := want.(type) {
	case *ref.Closure:
		f, ok := real.(MalFunc)
		return ok && f.IsMacro == w.IsMacro
	case ref.Builtin:
		_, ok := real.(Func)
		return ok
	case ref.ErrorObject:
		return true
	case List:
		r, ok := real.(List)
		return ok && sameSeq(r.Val, w.Val)
	case Vector:
		r, ok := real.(Vector)
		return ok && sameSeq(r.Val, w.Val)
	case HashMap:
		r, ok := real.(HashMap)
		if !ok || len(r.Val) != len(w.Val) {
			return false
		}
		for k, v := range w.Val {
			rv, present := r.Val[k]
			if !present || !sameValue(rv, v) {
				return false
			}
		}
		return true
	}
	return lib.RefEq(real, want)
}

func sameSeq(r, w []MalType) bool {
	if len(r) != len(w) {
		return false
	}
	for i := range w {
		if !sameValue(r[i], w[i]) {
			return false
		}
	}
	return true
}

// compare runs prog in both interpreters and asserts equal outcome, trace and globals.
func compare(prog MalType) {
	// reference first: programs outside the fuel bound are outside the claim
	m := &ref.Machine{Fuel: vrt.Param("fuel", 300)}
	rg := ref.Globals()
	wantV, wantTh := m.Eval(prog, rg)
	vrt.Assume(!m.OutOf && !m.Unspec)
	e := env.NewSubordinateEnv(Base)
	Trace = nil
	var gotV MalType
	var gotErr error
	panicked, pmsg := vrt.NoPanic(func() { gotV, gotErr = lisp.EVAL(context.Background(), prog, e) })
	vrt.Assert(!panicked, "EVAL panicked: "+pmsg)
	vrt.Observe("wantErr", wantTh != nil)
	if wantTh != nil {
		vrt.Assert(gotErr != nil, "definition prescribes an error ("+wantTh.Kind+") but EVAL returned a value")
	} else {
		vrt.Assert(gotErr == nil, "EVAL returned an error where the definition prescribes a value")
		vrt.Assert(sameValue(gotV, wantV), "EVAL result differs from the definition")
	}
	vrt.Assert(len(Trace) == len(m.Trace), "number of effects differs from the definition")
	for i := range m.Trace {
		vrt.Assert(sameValue(Trace[i], m.Trace[i]), "effect order or effect value differs from the definition")
	}
	for _, g := range globalNames {
		wv, wok := rg.Own(g)
		gv, gerr := e.Get(Symbol{Val: g})
		vrt.Assert((gerr == nil) == wok, "global "+g+" bound/unbound differs from the definition")
		if wok && gerr == nil {
			vrt.Assert(sameValue(gv, wv), "global "+g+" has a different value than the definition gives")
		}
	}
	vrt.Reach("end")
}

// Harness_programs: every program up to the depth/width bound over the reduced alphabet.
func Harness_programs() {
	g := &gen{width: vrt.Param("width", 2)}
	compare(g.expr("p", vrt.Param("depth", 2), nil))
}

// Harness_skeletons: program families beyond the size bound, with symbolic holes and integers.
func Harness_skeletons() {
	g := &gen{width: 1}
	hole := func(tag string, scope ...string) MalType { return g.node(tag, vrt.Param("holedepth", 1), scope) }
	n := vrt.IntRange("n", 0, 3)
	var prog MalType
	switch vrt.Concrete(vrt.Choice("family", 11)) {
	case 0: // self recursion with a symbolic counter: (do (def g1 (fn [x] (if (< x 1) H (g1 (- x 1))))) (g1 n))
		prog = lst(sym("do"),
			lst(sym("def"), sym("g1"), lst(sym("fn"), vect(sym("x")),
				lst(sym("if"), lst(sym("<"), sym("x"), 1), hole("h", "x"), lst(sym("g1"), lst(sym("-"), sym("x"), 1))))),
			lst(sym("g1"), n))
	case 1: // closure counter-maker called twice
		prog = lst(sym("do"),
			lst(sym("def"), sym("g1"), lst(sym("fn"), vect(sym("x")), lst(sym("fn"), vect(sym("y")), lst(sym("trace!"), lst(sym("+"), sym("x"), sym("y")))))),
			lst(sym("def"), sym("g2"), lst(sym("g1"), n)),
			lst(sym("list"), lst(sym("g2"), 1), lst(lst(sym("g1"), hole("h")), 2)))
	case 2: // shadowing through two lets and a parameter
		prog = lst(sym("let"), vect(sym("x"), n),
			lst(sym("let"), vect(sym("x"), lst(sym("+"), sym("x"), 1), sym("y"), sym("x")),
				lst(lst(sym("fn"), vect(sym("x")), lst(sym("list"), sym("x"), sym("y"), hole("h", "x", "y"))), 7)),
			sym("x"))
	case 3: // def inside a function body binds in the function's scope
		prog = lst(sym("do"),
			lst(sym("def"), sym("g1"), lst(sym("fn"), vect(), lst(sym("def"), sym("g2"), hole("h")), sym("g2"))),
			lst(sym("list"), lst(sym("g1")), lst(sym("trace!"), 5)),
			sym("g2"))
	case 4: // & rest with 0..3 arguments
		args := []MalType{sym("g1")}
		k := vrt.Concrete(vrt.Choice("argc", 4))
		for i := 0; i < k; i++ {
			args = append(args, lst(sym("trace!"), vrt.Int("a"+string(rune('0'+i)))))
		}
		prog = lst(sym("do"),
			lst(sym("def"), sym("g1"), lst(sym("fn"), vect(sym("x"), sym("&"), sym("r")), lst(sym("list"), sym("x"), sym("r"), lst(sym("count"), sym("r"))))),
			List{Val: args})
	case 5: // a closure sees a later def in the scope it captured
		prog = lst(sym("do"),
			lst(sym("def"), sym("g1"), lst(sym("fn"), vect(), sym("g2"))),
			lst(sym("def"), sym("g2"), hole("h")),
			lst(sym("g1")))
	case 6: // argument evaluation order and exactly-once with effects in every position
		prog = lst(lst(sym("trace!"), lst(sym("fn"), vect(sym("x"), sym("y")), lst(sym("trace!"), lst(sym("list"), sym("y"), sym("x"))))),
			lst(sym("trace!"), n), lst(sym("trace!"), hole("h")))
	case 7: // only the selected if branch is evaluated; nil/false falsy, everything else truthy
		prog = lst(sym("if"), hole("c"), lst(sym("trace!"), 1), lst(sym("trace!"), 2))
	case 8: // def inside a let with 0..1 bindings binds in the let's scope, not outside
		binds := []MalType{}
		if vrt.Bool("onebind") {
			binds = []MalType{sym("y"), 5}
		}
		prog = lst(sym("do"), lst(sym("def"), sym("g1"), n),
			lst(sym("let"), Vector{Val: binds}, lst(sym("def"), sym("g1"), hole("h")), lst(sym("def"), sym("g2"), 9), sym("g1")),
			lst(sym("list"), sym("g1"), lst(sym("if"), true, sym("g2"))))
	case 9: // a parameter shadowed by a def inside a nested scope of the function body
		prog = lst(sym("do"),
			lst(sym("def"), sym("g1"), lst(sym("fn"), vect(sym("x")), lst(sym("let"), vect(), lst(sym("def"), sym("x"), 0)), sym("x"))),
			lst(sym("g1"), n))
	default: // arity: 0..2 parameters, with or without & rest, called with 0..3 effectful arguments, directly or through apply;
		// a count the parameter list does not accept is an error raised before the body runs
		np := vrt.Concrete(vrt.Choice("np", 3))
		ps := []MalType{}
		body := []MalType{sym("list")}
		for i := 0; i < np; i++ {
			ps = append(ps, sym(string(rune('x'+i))))
			body = append(body, sym(string(rune('x'+i))))
		}
		if vrt.Bool("rest") {
			ps = append(ps, sym("&"), sym("r"))
			body = append(body, sym("r"))
		}
		k := vrt.Concrete(vrt.Choice("argc", 4))
		args := []MalType{}
		for i := 0; i < k; i++ {
			args = append(args, lst(sym("trace!"), vrt.Int("a"+string(rune('0'+i)))))
		}
		fnForm := lst(sym("fn"), Vector{Val: ps}, lst(sym("trace!"), List{Val: body}))
		var callForm MalType
		if vrt.Bool("viaapply") {
			callForm = lst(sym("apply"), sym("g1"), List{Val: append([]MalType{sym("list")}, args...)})
		} else {
			callForm = List{Val: append([]MalType{sym("g1")}, args...)}
		}
		prog = lst(sym("do"), lst(sym("def"), sym("g1"), fnForm), lst(sym("trace!"), callForm), lst(sym("trace!"), 7))
	}
	compare(prog)
}

// Program returns a symbolic program of the generator family (for other properties' harnesses).
func Program(tag string, depth, width int) MalType {
	g := &gen{width: width}
	return g.expr(tag, depth, nil)
}

// Skeleton returns one of the skeleton families with symbolic holes.
func Skeleton(tag string, holeDepth int) MalType {
	g := &gen{width: 1}
	hole := func(t string, scope ...string) MalType { return g.node(tag+"/"+t, holeDepth, scope) }
	n := vrt.IntRange(tag+"/n", 0, 3)
	switch vrt.Concrete(vrt.Choice(tag+"/family", 4)) {
	case 0:
		return lst(sym("do"),
			lst(sym("def"), sym("g1"), lst(sym("fn"), vect(sym("x")),
				lst(sym("if"), lst(sym("<"), sym("x"), 1), hole("h", "x"), lst(sym("g1"), lst(sym("-"), sym("x"), 1))))),
			lst(sym("g1"), n))
	case 1:
		return lst(sym("do"),
			lst(sym("def"), sym("g1"), lst(sym("fn"), vect(sym("x")), lst(sym("fn"), vect(sym("y")), lst(sym("trace!"), lst(sym("+"), sym("x"), sym("y")))))),
			lst(sym("def"), sym("g2"), lst(sym("g1"), n)),
			lst(sym("list"), lst(sym("g2"), 1), lst(lst(sym("g1"), hole("h")), 2)))
	case 2:
		return lst(sym("let"), vect(sym("x"), n),
			lst(sym("let"), vect(sym("x"), lst(sym("+"), sym("x"), 1), sym("y"), sym("x")),
				lst(lst(sym("fn"), vect(sym("x")), lst(sym("list"), sym("x"), sym("y"), hole("h", "x", "y"))), 7)),
			sym("x"))
	default:
		return lst(lst(sym("trace!"), lst(sym("fn"), vect(sym("x"), sym("y")), lst(sym("trace!"), lst(sym("list"), sym("y"), sym("x"))))),
			lst(sym("trace!"), n), lst(sym("trace!"), hole("h")))
	}
}
