package c01

import (
	"testing"

	"verif.example/h/vrt"
)

func TestReplay(t *testing.T) {
	Setup()
	vrt.ReplayMain(map[string]func(){"Harness_programs": Harness_programs, "Harness_skeletons": Harness_skeletons})
}
