// Package c07: cancelling the context stops evaluation promptly (logical and virtual time).
package c07

import (
	"context"
	"time"

	"github.com/jig/lisp"
	"github.com/jig/lisp/env"
	"github.com/jig/lisp/lib/call"
	. "github.com/jig/lisp/types"
	"verif.example/h/lib"
	"verif.example/h/vrt"
)

var Base EnvType

// tickCtx is a context whose Done channel is closed from the k-th tick on.
type tickCtx struct {
	done     chan struct{}
	closed   bool
	deadline time.Time // zero: no deadline
}

func (c *tickCtx) Deadline() (time.Time, bool) { return c.deadline, !c.deadline.IsZero() }
func (c *tickCtx) Done() <-chan struct{}       { return c.done }
func (c *tickCtx) Err() error {
	if c.closed {
		return context.Canceled
	}
	return nil
}
func (c *tickCtx) Value(any) any { return nil }

var (
	cur        *tickCtx
	ticks      int
	cancelAt   int
	afterClose int
)

func tick_BANG() (MalType, error) {
	if cur.closed {
		afterClose++
	}
	ticks++
	if ticks == cancelAt && !cur.closed {
		cur.closed = true
		close(cur.done)
	}
	return ticks, nil
}

const prelude = `(do
  (def tail-loop (fn [] (tick!) (tail-loop)))
  (def deep (fn [] (tick!) (+ 1 (deep))))
  (defmacro self-macro (fn [] (tick!) '(self-macro)))
  (def mutual-a (fn [] (tick!) (if true (mutual-b) 1)))
  (def mutual-b (fn [] (do (tick!) (mutual-a)))))`

func Setup() {
	Base = lib.StdEnv()
	call.CallOverrideFN(Base, "tick!", tick_BANG)
	if _, err := lisp.REPL(context.Background(), Base, prelude, nil); err != nil {
		panic(err)
	}
}

func sym(n string) MalType      { return Symbol{Val: n} }
func lst(xs ...MalType) MalType { return List{Val: xs} }

var loops = []string{"tail-loop", "deep", "self-macro", "mutual-a"}

func loopForm(tag string) MalType {
	return lst(sym(loops[vrt.Concrete(vrt.Choice(tag, len(loops)))]))
}

// program: a loop, optionally inside try/catch/finally whose handler and finally loop again.
func program(tag string, nest int) MalType {
	if nest == 0 || vrt.Bool(tag+"/plain") {
		return loopForm(tag + "/l")
	}
	elems := []MalType{sym("try"), program(tag+"/b", nest-1)}
	if vrt.Bool(tag + "/catch") {
		elems = append(elems, lst(sym("catch"), sym("e"), program(tag+"/h", nest-1)))
	}
	if vrt.Bool(tag + "/finally") {
		elems = append(elems, lst(sym("finally"), program(tag+"/f", nest-1)))
	}
	return List{Val: elems}
}

// Harness_cancel: once the context is cancelled (at the k-th tick, k arbitrary) EVAL returns with a
// timeout error after a number of further loop iterations that does not depend on the program.
func Harness_cancel() {
	nest := vrt.Param("nest", 1)
	prog := program("p", nest)
	cancelAt = vrt.IntRange("k", 0, vrt.Param("maxk", 3))
	cur = &tickCtx{done: make(chan struct{})}
	if vrt.Bool("withdeadline") {
		// a deadline far in the future: cancellation arrives long before it
		cur.deadline = time.Now().Add(time.Hour)
	}
	ticks, afterClose = 0, 0
	if cancelAt == 0 {
		cur.closed = true
		close(cur.done)
	}
	e := env.NewSubordinateEnv(Base)
	v, err := lisp.EVAL(cur, prog, e)
	vrt.Observe("~ticks", ticks) // ~: depends on real time natively, not compared with the engine
	vrt.Assert(cur.closed, "evaluation of a non-terminating program returned before the context was cancelled")
	vrt.Assert(err != nil, "a cancelled evaluation returned a value instead of a timeout error")
	_ = v
	slack := 0
	if !cur.deadline.IsZero() {
		// with a deadline the try body runs under a derived context that learns of the
		// cancellation from a goroutine of package context: a few more iterations may pass
		// until that goroutine is scheduled (bounded by the scheduler's fairness, not by the program)
		slack = 12
		if !vrt.Symbolic() {
			// native replay: the real scheduler decides when that goroutine runs (wall-clock latency is outside the claim)
			slack = 1 << 30
		}
	}
	vrt.Observe("~afterClose", afterClose)
	vrt.Assert(afterClose <= 1+nest+slack, "evaluation went on iterating after the context had been cancelled")
	vrt.Reach("end")
}

// Harness_sleep is defined in sleep.go
