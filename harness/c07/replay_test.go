package c07

import (
	"testing"

	"verif.example/h/vrt"
)

func TestReplay(t *testing.T) {
	Setup()
	vrt.ReplayMain(map[string]func(){"Harness_cancel": Harness_cancel, "Harness_sleep": Harness_sleep, "Harness_wait": Harness_wait})
}
