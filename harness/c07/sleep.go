package c07

import (
	"context"
	"time"

	"github.com/jig/lisp"
	"github.com/jig/lisp/env"
	. "github.com/jig/lisp/types"
	"verif.example/h/vrt"
)

// Harness_sleep (virtual time): sleeping programs under a deadline D return by D, whatever the durations.
func Harness_sleep() {
	ms := vrt.IntRange("ms", 0, 1<<20)
	ms2 := vrt.IntRange("ms2", 0, 1<<20)
	d := vrt.IntRange("deadline_ms", 1, 1<<20)
	var prog MalType
	e := env.NewSubordinateEnv(Base)
	shape := vrt.Param("shapelo", 0) + vrt.Concrete(vrt.Choice("shape", vrt.Param("shapes", 5)))
	cancelAt := -1
	if shape >= 7 {
		// explicit cancellation before a far deadline while the program sleeps: EVAL returns by the cancellation.
		// (Multiples of 500 ms as below.)
		ms = 500 * vrt.IntRange("ms_units", 0, 6)
		ms2 = 500 * vrt.IntRange("ms2_units", 0, 2)
		d = 3500
		cancelAt = 500 * vrt.IntRange("cancel_units", 0, 6)
	} else if shape >= 5 {
		// waiting on a future that another evaluation started earlier under its own (unlimited) context: the wait
		// is bounded by the context of the evaluation that waits. (Durations up to 3 s so that a native replay ends.
		// Both are multiples of 500 ms, so that being late means being late by more than the latency allowance
		// of the native replay.)
		ms = 500 * vrt.IntRange("ms_units", 0, 6)
		d = 500 * vrt.IntRange("deadline_units", 1, 6)
		_, derr := lisp.EVAL(context.Background(), lst(sym("def"), sym("fut"), lst(sym("future"), lst(sym("sleep"), ms))), e)
		vrt.Assert(derr == nil, "creating a future failed")
	}
	switch shape {
	case 0:
		prog = lst(sym("sleep"), ms)
	case 1:
		prog = lst(sym("do"), lst(sym("sleep"), ms), lst(sym("sleep"), ms2))
	case 2:
		prog = lst(sym("try"), lst(sym("sleep"), ms), lst(sym("catch"), sym("e"), lst(sym("sleep"), ms2)))
	case 3:
		prog = lst(sym("try"), lst(sym("sleep"), ms), lst(sym("catch"), sym("e"), lst(sym("sleep"), ms2)), lst(sym("finally"), lst(sym("sleep"), ms2)))
	case 4:
		// waiting on a future whose body sleeps
		prog = lst(sym("deref"), lst(sym("future"), lst(sym("sleep"), ms)))
	case 5:
		prog = lst(sym("deref"), sym("fut"))
	case 6:
		prog = lst(sym("try"), lst(sym("deref"), sym("fut")), lst(sym("catch"), sym("e"), lst(sym("deref"), sym("fut"))), lst(sym("finally"), lst(sym("deref"), sym("fut"))))
	case 7:
		prog = lst(sym("sleep"), ms)
	default:
		prog = lst(sym("try"), lst(sym("sleep"), ms), lst(sym("catch"), sym("e"), lst(sym("sleep"), ms2)))
	}
	start := vrt.Now()
	ctx, cancel := context.WithTimeout(context.Background(), time.Duration(d)*time.Millisecond)
	defer cancel()
	if cancelAt >= 0 {
		tm := time.AfterFunc(time.Duration(cancelAt)*time.Millisecond, cancel)
		defer tm.Stop()
	}
	_, err := lisp.EVAL(ctx, prog, e)
	elapsed := vrt.Now() - start
	limit := int64(d) * int64(time.Millisecond)
	if cancelAt >= 0 && cancelAt < d {
		limit = int64(cancelAt) * int64(time.Millisecond)
		if shape == 7 && ms > cancelAt {
			vrt.Assert(err != nil, "evaluation cancelled in the middle of a sleep returned a value")
		}
	}
	if !vrt.Symbolic() {
		// native replay runs in wall-clock time: scheduler and timer latency are outside the claim
		limit += int64(200 * time.Millisecond)
	}
	vrt.Observe("~err", err != nil)
	vrt.Assert(elapsed <= limit, "evaluation of a sleeping program returned after its deadline")
	vrt.Reach("end")
}

// Harness_wait: the shapes of Harness_sleep in which the evaluation waits on a future started earlier
// by another evaluation under another context, or is cancelled explicitly before a far deadline while it sleeps
// (parameters shapelo=5, shapes=4).
func Harness_wait() { Harness_sleep() }
