package c07

import (
	"context"
	"time"

	"github.com/jig/lisp"
	"github.com/jig/lisp/env"
	. "github.com/jig/lisp/types"
	"verif.example/h/vrt"
)

// Harness_sleep (virtual time): sleeping programs under a deadline D return by D, whatever the durations.
func Harness_sleep() {
	ms := vrt.IntRange("ms", 0, 1<<20)
	ms2 := vrt.IntRange("ms2", 0, 1<<20)
	d := vrt.IntRange("deadline_ms", 1, 1<<20)
	var prog MalType
	switch vrt.Concrete(vrt.Choice("shape", 5)) {
	case 0:
		prog = lst(sym("sleep"), ms)
	case 1:
		prog = lst(sym("do"), lst(sym("sleep"), ms), lst(sym("sleep"), ms2))
	case 2:
		prog = lst(sym("try"), lst(sym("sleep"), ms), lst(sym("catch"), sym("e"), lst(sym("sleep"), ms2)))
	case 3:
		prog = lst(sym("try"), lst(sym("sleep"), ms), lst(sym("catch"), sym("e"), lst(sym("sleep"), ms2)), lst(sym("finally"), lst(sym("sleep"), ms2)))
	default:
		// waiting on a future whose body sleeps
		prog = lst(sym("deref"), lst(sym("future"), lst(sym("sleep"), ms)))
	}
	start := vrt.Now()
	ctx, cancel := context.WithTimeout(context.Background(), time.Duration(d)*time.Millisecond)
	defer cancel()
	e := env.NewSubordinateEnv(Base)
	_, err := lisp.EVAL(ctx, prog, e)
	elapsed := vrt.Now() - start
	limit := int64(d) * int64(time.Millisecond)
	if !vrt.Symbolic() {
		// native replay runs in wall-clock time: scheduler and timer latency are outside the claim
		limit += int64(200 * time.Millisecond)
	}
	vrt.Observe("err", err != nil)
	vrt.Assert(elapsed <= limit, "evaluation of a sleeping program returned after its deadline")
	vrt.Reach("end")
}
