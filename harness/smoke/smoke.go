package smoke

import (
	"context"

	"github.com/jig/lisp"
	"github.com/jig/lisp/env"
	"github.com/jig/lisp/lib/core/nscore"
	"github.com/jig/lisp/types"
	"verif.example/h/vrt"
)

var Env types.EnvType

func Setup() {
	Env = env.NewEnv()
	if err := nscore.Load(Env); err != nil {
		panic(err)
	}
}

func Harness_add() {
	x := vrt.Int("x")
	Env.Set(types.Symbol{Val: "x"}, x)
	r, err := lisp.REPL(context.Background(), Env, "(if (< x 5) (+ x 1) (cond false 7 true (- x 1)))", nil)
	vrt.Assert(err == nil, "no error")
	vrt.Observe("r", r)
	vrt.Reach("end")
}
