// Package c17: runtime errors point at the failing form.
package c17

import (
	"context"

	"github.com/jig/lisp"
	"github.com/jig/lisp/env"
	. "github.com/jig/lisp/types"
	"verif.example/h/lib"
	"verif.example/h/vrt"
)

var Base EnvType

func Setup() { Base = lib.StdEnv() }

// text builder that tracks the current line
type builder struct {
	s    string
	line int
}

func (b *builder) add(t string) {
	b.s += t
	for i := 0; i < len(t); i++ {
		if t[i] == '\n' {
			b.line++
		}
	}
}

// filler adds 0..max symbolic layout units (after a mandatory blank when need).
func (b *builder) filler(tag string, max int, need bool) {
	if need {
		b.add(" ")
	}
	max = vrt.Param("fill_"+tag, max) // per-position override of the layout bound
	n := vrt.Concrete(vrt.Choice(tag+"/n", max+1))
	for i := 0; i < n; i++ {
		t := tag + "/" + string(rune('0'+i))
		switch vrt.Concrete(vrt.Choice(t, 5)) {
		case 0:
			b.add(" ")
		case 1:
			b.add("\n")
		case 2:
			b.add("\r\n")
		case 3:
			b.add("\t")
		default:
			b.add(";" + string([]byte{vrt.ByteIn(t+"/c", "a();\" ")}) + "\n")
		}
	}
}

var faults = []string{"undefined-symbol", "(throw \"x\")", "(nth [] 1)", "(assert false)", "(read-string \"(1 2\")", "(eval (read-string \"(nth [] 3)\"))",
	// call forms built by a library macro (they carry no position of their own)
	"(-> [] (nth 1))", "(->> 1 (nth []))"}

type span struct{ from, to int }

// correct form of a few shapes (one line, two lines, multi-line raw string)
func (b *builder) okForm(tag string) {
	k := vrt.Concrete(vrt.Choice(tag, 4))
	if vrt.Param("okforms", 4) == 2 {
		vrt.Assume(k == 0 || k == 3)
	}
	switch k {
	case 0:
	case 1:
		b.add("(def a 1)")
	case 2:
		b.add("(def b\n  2)")
	default:
		b.add("(def s ¬x\ny\n¬)")
	}
}

// Harness_position: the position of the error lies in the top-level form that contains the fault and covers its line.
func Harness_position() {
	max := vrt.Param("fill", 1)
	b := &builder{line: 1}
	b.add("(do")
	b.filler("u0", max, true)
	fault := faults[vrt.Concrete(vrt.Choice("fault", len(faults)))]
	wrapper := vrt.Concrete(vrt.Choice("wrapper", 13))
	var faultLine int
	var form span
	putFault := func(tag string) {
		b.filler(tag, max, true)
		faultLine = b.line
		b.add(fault)
	}
	// F1: a correct form, or the function whose body holds the fault
	if wrapper == 9 || wrapper == 10 {
		form.from = b.line
		if wrapper == 9 {
			b.add("(def f (fn [x]")
			putFault("in")
			b.add("))")
		} else {
			b.add("(def mk (fn [] (fn [y]")
			putFault("in")
			b.add(")))")
		}
		form.to = b.line
	} else {
		b.okForm("f1")
	}
	b.filler("u1", max, true)
	// the form evaluated at the point of failure
	start := b.line
	switch wrapper {
	case 0:
		faultLine = b.line
		b.add(fault)
	case 1:
		b.add("(let [q 1]")
		putFault("in")
		b.add(")")
	case 2:
		b.add("(let [q")
		putFault("in")
		b.add("] q)")
	case 3:
		b.add("(if true")
		putFault("in")
		b.add(" 2)")
	case 4:
		b.add("(do 1")
		putFault("in")
		b.add(" 3)")
	case 5:
		b.add("[1")
		putFault("in")
		b.add("]")
	case 6:
		b.add("{:k")
		putFault("in")
		b.add("}")
	case 7:
		b.add("(cond false 1 true")
		putFault("in")
		b.add(")")
	case 8:
		b.add("(list 1 (list")
		putFault("in")
		b.add("))")
	case 9:
		b.add("(f 1)")
	case 10:
		b.add("((mk) 1)")
	case 11: // a closure handed as the last argument to a builtin that calls it back
		b.add("(swap! (atom 0) (fn [x]")
		putFault("in")
		b.add("))")
	default: // ... and to update
		b.add("(update {:k 1} :k (fn [x]")
		putFault("in")
		b.add("))")
	}
	if wrapper < 9 || wrapper > 10 {
		form = span{start, b.line}
	}
	b.filler("u2", max, true)
	b.okForm("f2")
	b.filler("u3", max, false)
	b.add(")")
	e := env.NewSubordinateEnv(Base)
	module := "m"
	var cursor *Position
	text := b.s
	if vrt.Bool("header") {
		// the module name comes from the first line of the text; it may contain blanks
		module = []string{"mod", "my dir/prog.lisp", "a\tb"}[vrt.Concrete(vrt.Choice("modname", 3))]
		text = ";; $MODULE " + module + "\n" + b.s
		faultLine++
		form.from++
		form.to++
	} else {
		cursor = NewCursorFile("m")
	}
	ast, rerr := lisp.READ(text, cursor, e)
	vrt.Observe("text", text)
	vrt.Assert(rerr == nil, "program text rejected")
	_, err := lisp.EVAL(context.Background(), ast, e)
	vrt.Assert(err != nil, "the planted fault did not fail")
	pe, ok := err.(interface{ Position() *Position })
	if ok && pe.Position() != nil {
		p := pe.Position()
		vrt.Observe("pos", p.String())
		vrt.Observe("faultLine", faultLine)
		vrt.Assert(p.Module != nil && *p.Module == module, "error position names another module")
		vrt.Assert(p.BeginRow >= form.from && p.Row <= form.to, "error position lies outside the top-level form that contains the faulty expression")
		vrt.Assert(p.BeginRow <= faultLine && faultLine <= p.Row, "error position does not cover the line on which the faulty expression starts")
	}
	vrt.Reach("end")
}
