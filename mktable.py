#!/usr/bin/env python3
"""Rewrites the numbers (paths, wall) of the summary table in DESIGN.md §0 from /verif/evidence/*.json."""
import json, os, re
ROOT = os.path.dirname(os.path.abspath(__file__))
p = os.path.join(ROOT, "DESIGN.md")
s = open(p).read()
def fmt(n):
    if n >= 1_000_000: return "%.1f M" % (n / 1e6)
    if n >= 10_000: return "%d k" % round(n / 1000)
    if n >= 1000: return "%.1f k" % (n / 1000)
    return str(n)
for f in sorted(os.listdir(os.path.join(ROOT, "evidence"))):
    e = json.load(open(os.path.join(ROOT, "evidence", f)))
    pid = e["property_id"]
    paths = sum(e["coverage"]["paths"].values())
    wall = e["wall_s"]
    pat = re.compile(r"^(\| %s \| [^|]* \|)[^|]*\|[^|]*\|" % pid, re.M)
    s, n = pat.subn(lambda m: "%s %s | %d s |" % (m.group(1), fmt(paths), round(wall)), s, count=1)
    if n != 1:
        print("no row for", pid)
open(p, "w").write(s)
