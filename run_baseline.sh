#!/bin/sh
# usage: run_baseline.sh <worktree-dir> : runs the repository test suite and checks the 48 baseline tests pass
export GOFLAGS=-mod=mod GOPROXY=off GOSUMDB=off GOTOOLCHAIN=local
cd "$1" || exit 2
go build ./... || { echo "BUILD FAILED"; exit 1; }
go test -json -vet=off -count=1 -timeout 25m ./... > /tmp/mut/base.$$.json 2>/dev/null
python3 - /tmp/mut/base.$$.json <<'PY'
import json,sys
passed=set()
for line in open(sys.argv[1]):
    try: e=json.loads(line)
    except Exception: continue
    if e.get("Action")=="pass" and e.get("Test"):
        passed.add(e["Package"]+"::"+e["Test"])
want=set(json.load(open("/root/.vp/BASELINE.json"))["stable_pass"])
missing=sorted(want-passed)
print("baseline: %d/%d stable tests pass" % (len(want)-len(missing), len(want)))
for m in missing: print("MISSING", m)
sys.exit(1 if missing else 0)
PY
rc=$?; rm -f /tmp/mut/base.$$.json; exit $rc
