package main

import (
	"context"
	"fmt"

	"github.com/jig/lisp"
	"github.com/jig/lisp/env"
	"github.com/jig/lisp/lib/core"
	"github.com/jig/lisp/lib/core/nscore"
)

func main() {
	e := env.NewEnv()
	_ = core.Load
	nscore.Load(e)
	for _, s := range []string{`(get-in {} ["" 0])`, `(get-in {} ["a" "b"])`, `(get-in {} [:a 0])`, `(get-in {"" nil} ["" 0])`, `(get-in {"" [5]} ["" 0])`, `(get nil 0)`, `(get nil "a")`, `(get-in nil ["a"])`, `(get-in {:a {:b 1}} [:a :b])`,`(get-in {} [0])`} {
		v, err := lisp.REPL(context.Background(), e, s, nil)
		fmt.Printf("%s => %v | %v\n", s, v, err)
	}
}
