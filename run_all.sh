#!/bin/bash
# runs every check of the given tier sequentially; summary on stdout
TIER=${1:-quick}; shift
IDS=${@:-C01 C02 C03 C04 C05 C06 C07 C08 C09 C10 C11 C12 C13 C14 C15 C16 C17 C18 C19 C20}
cd /verif
for id in $IDS; do
  s=$(date +%s)
  ./check $id $TIER > /tmp/all_$id.log 2>&1; rc=$?
  echo "$id rc=$rc $(( $(date +%s) - s ))s $(grep -c '^VIOLATION' /tmp/all_$id.log) violations $(grep -c '^KNOWN' /tmp/all_$id.log) known | $(grep -E 'WARNING|BROKEN|unconfirmed|inconclusive' /tmp/all_$id.log | head -2 | cut -c1-160 | tr '\n' ' ')"
done
