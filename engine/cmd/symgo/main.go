// symgo: bounded symbolic execution of Go (go/ssa) harnesses.
//
//	symgo run -dir /verif/harness -pkg ./c14 -harness Harness_pairs [-setup Setup] [-param k=v,...] -out result.json
package main

import (
	"encoding/json"
	"flag"
	"fmt"
	"os"
	"runtime/pprof"
	"strconv"
	"strings"
	"syscall"
	"time"

	"symgo/interp"
)

func main() {
	// The sandbox makes first-touch page faults expensive: keep stacks and freed
	// heap pages mapped instead of returning and re-faulting them.
	if os.Getenv("SYMGO_REEXEC") == "" {
		env := append(os.Environ(), "SYMGO_REEXEC=1", "GODEBUG=gcshrinkstackoff=1,madvdontneed=0")
		if exe, err := os.Executable(); err == nil {
			syscall.Exec(exe, os.Args, env)
		}
	}
	if len(os.Args) < 2 || os.Args[1] != "run" {
		fmt.Fprintln(os.Stderr, "usage: symgo run [flags]")
		os.Exit(2)
	}
	fs := flag.NewFlagSet("run", flag.ExitOnError)
	dir := fs.String("dir", ".", "module directory of the harness")
	pkg := fs.String("pkg", ".", "harness package pattern")
	harness := fs.String("harness", "", "comma separated harness functions")
	setup := fs.String("setup", "", "setup function")
	params := fs.String("param", "", "k=v,k=v harness parameters")
	workers := fs.Int("workers", 16, "workers")
	budget := fs.Int64("budget", 5_000_000, "step budget per path")
	maxPaths := fs.Int64("maxpaths", 0, "stop after this many paths (0 = exhaustive)")
	wall := fs.Duration("wall", 0, "wall-clock limit")
	out := fs.String("out", "", "result JSON file")
	solver := fs.String("solver", "z3", "z3 | z3-new | cvc5")
	mapOrder := fs.Bool("maporder", false, "symbolic map iteration order")
	preempt := fs.Int("preemptions", 2, "preemption bound")
	threads := fs.Int("threads", 4, "max threads")
	trace := fs.Bool("trace", false, "verbose inconclusive details")
	overlay := fs.String("overlay", "", "virtual=real,... overlay files")
	tags := fs.String("tags", "", "build tags")
	maxDepth := fs.Int("maxdepth", 2000, "max call depth")
	noFD := fs.Bool("nofd", false, "disable the finite-domain fast path")
	crossFD := fs.Int("crossfd", 211, "cross-check every n-th finite-domain verdict against the SMT solver")
	cpuprof := fs.String("cpuprofile", "", "write a CPU profile")
	hangViol := fs.Bool("hangviolation", false, "exhausting the step budget counts as a violation")
	stopOnViol := fs.Bool("stoponviolation", false, "stop at the first violation")
	fs.Parse(os.Args[2:])

	ov := map[string][]byte{}
	if *overlay != "" {
		for _, kv := range strings.Split(*overlay, ",") {
			p := strings.SplitN(kv, "=", 2)
			b, err := os.ReadFile(p[1])
			if err != nil {
				fatal(err)
			}
			ov[p[0]] = b
		}
	}
	var tg []string
	if *tags != "" {
		tg = strings.Split(*tags, ",")
	}
	t0 := time.Now()
	prog, err := interp.Load(*dir, *pkg, ov, tg)
	if err != nil {
		fatal(err)
	}
	fmt.Fprintf(os.Stderr, "loaded in %.1fs\n", time.Since(t0).Seconds())
	if *cpuprof != "" {
		f, err := os.Create(*cpuprof)
		if err != nil {
			fatal(err)
		}
		pprof.StartCPUProfile(f)
		defer pprof.StopCPUProfile()
	}

	pm := map[string]int64{}
	if *params != "" {
		for _, kv := range strings.Split(*params, ",") {
			p := strings.SplitN(kv, "=", 2)
			v, err := strconv.ParseInt(p[1], 10, 64)
			if err != nil {
				fatal(err)
			}
			pm[p[0]] = v
		}
	}
	all := map[string]*interp.Result{}
	for _, h := range strings.Split(*harness, ",") {
		cfg := interp.Config{Harness: h, Setup: *setup, Workers: *workers, StepBudget: *budget, MaxPaths: *maxPaths,
			WallLimit: *wall, Solver: *solver, SymbolicMapOrder: *mapOrder, MaxPreemptions: *preempt, MaxThreads: *threads,
			Params: pm, Trace: *trace, MaxDepth: *maxDepth, StopOnViolation: *stopOnViol, NoFD: *noFD, CrossCheckFD: *crossFD, Fallback: []string{"z3-new", "cvc5"}, HangIsViolation: *hangViol, ProbeHot: flagSet(fs, "preemptions")}
		res, err := interp.Explore(prog, cfg)
		if err != nil {
			fatal(err)
		}
		all[h] = res
		fmt.Fprintf(os.Stderr, "%s: paths=%d outcomes=%v decisions=%d queries(unsat/sat/unknown)=%v solver=%.1fs wall=%.1fs violations=%d exhaustive=%v\n",
			h, res.Stats.Paths, res.Outcomes, res.Stats.Decisions, fmt.Sprint(res.Queries, " unknown(feas/assert)=", res.Stats.UnknownFeasibility, res.Stats.UnknownAssert, " fd(sat/unsat/xchk/mismatch)=", res.Stats.FDSat, res.Stats.FDUnsat, res.Stats.FDCrossChecked, res.Stats.FDMismatch), res.SolverTime.Seconds(), res.Wall.Seconds(), len(res.Violations), res.Exhaustive)
		interp.DumpSchedStat()
		for k, v := range res.Inconclusive {
			fmt.Fprintf(os.Stderr, "  inconclusive %dx %s\n", v, k)
		}
		for _, v := range res.Violations {
			fmt.Fprintf(os.Stderr, "  VIOL %s %s [%s] x%d\n", v.Kind, v.Msg, v.Site, res.ViolCount[v.Kind+":"+v.Site+":"+v.Msg])
		}
	}
	if *out != "" {
		b, _ := json.MarshalIndent(map[string]interface{}{"results": all, "load_s": prog.LoadDur.Seconds(), "params": pm}, "", " ")
		if err := os.WriteFile(*out, b, 0o644); err != nil {
			fatal(err)
		}
	}
}

func fatal(err error) {
	fmt.Fprintln(os.Stderr, "symgo:", err)
	os.Exit(2)
}

// flagSet reports whether the flag was given explicitly.
func flagSet(fs *flag.FlagSet, name string) bool {
	set := false
	fs.Visit(func(f *flag.Flag) {
		if f.Name == name {
			set = true
		}
	})
	return set
}
