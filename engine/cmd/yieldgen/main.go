// yieldgen writes instrumented copies of the Go files of the repository under
// test, for native replay of schedule-dependent counterexamples: before every
// statement that performs a call, a channel operation, a select or a go
// statement a call vrtYield("dir/file.go:LINE", syncish) is inserted, where
// LINE is the line of that operation in the ORIGINAL file.  The copies are
// used through `go test -overlay`; /repo itself is not touched.  The hook (one
// generated file per package) sleeps at the sites named in $VRT_YIELD (the
// preemption sites of the engine's counterexample) and adds a little
// scheduling jitter at synchronisation operations.
//
// usage: yieldgen -repo /repo -out DIR   (prints the overlay JSON to DIR/overlay.json)
package main

import (
	"bytes"
	"encoding/json"
	"flag"
	"fmt"
	"go/ast"
	"go/parser"
	"go/token"
	"os"
	"path/filepath"
	"sort"
	"strconv"
	"strings"
)

const hookSrc = `package %s

import (
	vrtyRand "math/rand"
	vrtyOs "os"
	vrtyRuntime "runtime"
	vrtyStrings "strings"
	vrtySync "sync"
	vrtyTime "time"
)

var vrtYieldOnce vrtySync.Once
var vrtYieldSites map[string]bool

func vrtYield(site string, syncish bool) {
	vrtYieldOnce.Do(func() {
		vrtYieldSites = map[string]bool{}
		for _, s := range vrtyStrings.Split(vrtyOs.Getenv("VRT_YIELD"), ",") {
			if s != "" {
				vrtYieldSites[s] = true
			}
		}
	})
	if vrtYieldSites[site] {
		if vrtyRand.Intn(4) != 0 {
			vrtyTime.Sleep(vrtyTime.Duration(500+vrtyRand.Intn(2500)) * vrtyTime.Microsecond)
		}
		return
	}
	if syncish && vrtyRand.Intn(16) == 0 {
		vrtyRuntime.Gosched()
	}
}
`

var syncNames = map[string]bool{"Lock": true, "Unlock": true, "RLock": true, "RUnlock": true, "Wait": true,
	"Store": true, "Load": true, "Add": true, "CompareAndSwap": true, "Swap": true, "Done": true, "Err": true, "Signal": true, "Broadcast": true}

type op struct {
	line    int
	syncish bool
}

// directOps finds the operations a statement performs itself (not inside
// nested blocks or function literals, which get their own hooks).
func directOps(fset *token.FileSet, n ast.Node) (ops []op) {
	ast.Inspect(n, func(m ast.Node) bool {
		switch m := m.(type) {
		case *ast.BlockStmt, *ast.FuncLit:
			if m != n {
				return false
			}
		case *ast.CaseClause, *ast.CommClause:
			return false
		case *ast.CallExpr:
			s := false
			if sel, ok := m.Fun.(*ast.SelectorExpr); ok && syncNames[sel.Sel.Name] {
				s = true
			}
			ops = append(ops, op{fset.Position(m.Lparen).Line, s})
		case *ast.SendStmt:
			ops = append(ops, op{fset.Position(m.Arrow).Line, true})
		case *ast.UnaryExpr:
			if m.Op == token.ARROW {
				ops = append(ops, op{fset.Position(m.OpPos).Line, true})
			}
		case *ast.SelectStmt:
			ops = append(ops, op{fset.Position(m.Select).Line, true})
		case *ast.GoStmt:
			ops = append(ops, op{fset.Position(m.Go).Line, true})
		}
		return true
	})
	return
}

type insertion struct {
	off  int
	text string
}

func collectList(fset *token.FileSet, rel string, list []ast.Stmt, ins *[]insertion) {
	for _, st := range list {
		switch st.(type) {
		case *ast.DeferStmt, *ast.LabeledStmt, *ast.EmptyStmt:
			continue
		}
		seen := map[int]bool{}
		text := ""
		for _, o := range directOps(fset, st) {
			if seen[o.line] {
				continue
			}
			seen[o.line] = true
			text += "vrtYield(" + strconv.Quote(rel+":"+strconv.Itoa(o.line)) + ", " + strconv.FormatBool(o.syncish) + "); "
		}
		if text != "" {
			*ins = append(*ins, insertion{fset.Position(st.Pos()).Offset, text})
		}
	}
}

// instrument returns the source with hook calls inserted in front of the
// statements (on the same line: line numbers, comments and directives stay).
func instrument(fset *token.FileSet, rel string, f *ast.File, src []byte) ([]byte, bool) {
	var ins []insertion
	ast.Inspect(f, func(n ast.Node) bool {
		switch n := n.(type) {
		case *ast.BlockStmt:
			collectList(fset, rel, n.List, &ins)
		case *ast.CaseClause:
			collectList(fset, rel, n.Body, &ins)
		case *ast.CommClause:
			collectList(fset, rel, n.Body, &ins)
		}
		return true
	})
	if len(ins) == 0 {
		return src, false
	}
	sort.Slice(ins, func(a, b int) bool { return ins[a].off < ins[b].off })
	var out bytes.Buffer
	last := 0
	for _, in := range ins {
		out.Write(src[last:in.off])
		out.WriteString(in.text)
		last = in.off
	}
	out.Write(src[last:])
	return out.Bytes(), true
}

func main() {
	repo := flag.String("repo", "/repo", "repository under test")
	out := flag.String("out", "", "output directory")
	flag.Parse()
	if *out == "" {
		fmt.Fprintln(os.Stderr, "yieldgen: -out required")
		os.Exit(2)
	}
	overlay := map[string]string{}
	pkgs := map[string]string{} // dir -> package name
	err := filepath.Walk(*repo, func(path string, info os.FileInfo, err error) error {
		if err != nil {
			return err
		}
		if info.IsDir() {
			b := info.Name()
			if path != *repo && (strings.HasPrefix(b, ".") || b == "testdata" || b == "vendor") {
				return filepath.SkipDir
			}
			return nil
		}
		if !strings.HasSuffix(path, ".go") || strings.HasSuffix(path, "_test.go") {
			return nil
		}
		src, err := os.ReadFile(path)
		if err != nil {
			return err
		}
		fset := token.NewFileSet()
		f, err := parser.ParseFile(fset, path, src, parser.ParseComments)
		if err != nil {
			return nil // not our problem: the build will report it
		}
		if f.Name.Name == "main" {
			return nil
		}
		rel, _ := filepath.Rel(*repo, path)
		if bytes.Contains(src, []byte("import \"C\"")) {
			return nil
		}
		res, changed := instrument(fset, filepath.ToSlash(rel), f, src)
		if !changed {
			return nil
		}
		dst := filepath.Join(*out, rel)
		os.MkdirAll(filepath.Dir(dst), 0o755)
		if err := os.WriteFile(dst, res, 0o644); err != nil {
			return err
		}
		overlay[path] = dst
		pkgs[filepath.Dir(path)] = f.Name.Name
		return nil
	})
	if err != nil {
		fmt.Fprintln(os.Stderr, "yieldgen:", err)
		os.Exit(2)
	}
	for dir, name := range pkgs {
		rel, _ := filepath.Rel(*repo, dir)
		dst := filepath.Join(*out, rel, "zz_vrtyield.go")
		os.WriteFile(dst, []byte(fmt.Sprintf(hookSrc, name)), 0o644)
		overlay[filepath.Join(dir, "zz_vrtyield.go")] = dst
	}
	b, _ := json.MarshalIndent(map[string]any{"Replace": overlay}, "", " ")
	os.WriteFile(filepath.Join(*out, "overlay.json"), b, 0o644)
	fmt.Printf("yieldgen: %d files instrumented in %d packages\n", len(overlay)-len(pkgs), len(pkgs))
}
