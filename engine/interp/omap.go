package interp

// Deterministic, insertion-ordered map used for every Go map of the target
// program (replaces x/tools' map[value]value and *hashmap).  Keys may be
// symbolic (terms or strings with symbolic bytes); then lookups compare
// against each existing key and the comparison is decided through the path
// context (which forks).

import (
	"go/types"

	"symgo/smt"
)

type omap struct {
	keyType types.Type
	keys    []value
	vals    []value
	idx     map[value]int // only when every key is a concrete comparable basic/pointer value
	nsym    int           // number of non-indexable keys
}

func makeMap(kt types.Type, reserve int64) value {
	return &omap{keyType: kt, idx: map[value]int{}}
}

// indexable reports whether k can be used as a native Go map key with the
// same equivalence as the target program's.
func indexable(k value) bool {
	switch k.(type) {
	case bool, int, int8, int16, int32, int64, uint, uint8, uint16, uint32, uint64, uintptr,
		float32, float64, string, *value, *chanModel:
		return true
	}
	return false
}

func (m *omap) len() int {
	if m == nil {
		return 0
	}
	return len(m.keys)
}

// find returns the position of key k or -1.
func (m *omap) find(i *interpreter, k value) int {
	if m == nil {
		return -1
	}
	if m.nsym == 0 && indexable(k) {
		if p, ok := m.idx[k]; ok {
			return p
		}
		return -1
	}
	for p, k2 := range m.keys {
		if indexable(k) && indexable(k2) {
			if k == k2 {
				return p
			}
			continue
		}
		if i.decideEq(m.keyType, k, k2) {
			return p
		}
	}
	return -1
}

func (m *omap) lookup(i *interpreter, k value) (value, bool) {
	p := m.find(i, k)
	if p < 0 {
		return nil, false
	}
	return m.vals[p], true
}

func (m *omap) insert(i *interpreter, k value, v value) {
	p := m.find(i, k)
	if p >= 0 {
		old := m.vals[p]
		i.logUndo(func() { m.vals[p] = old })
		m.vals[p] = v
		return
	}
	m.keys = append(m.keys, k)
	m.vals = append(m.vals, v)
	ix := indexable(k)
	if ix {
		m.idx[k] = len(m.keys) - 1
	} else {
		m.nsym++
	}
	i.logUndo(func() {
		n := len(m.keys) - 1
		m.keys = m.keys[:n]
		m.vals = m.vals[:n]
		if ix {
			delete(m.idx, k)
		} else {
			m.nsym--
		}
	})
}

func (m *omap) delete(i *interpreter, k value) {
	p := m.find(i, k)
	if p < 0 {
		return
	}
	oldKeys := append([]value(nil), m.keys...)
	oldVals := append([]value(nil), m.vals...)
	oldN := m.nsym
	i.logUndo(func() {
		m.keys, m.vals, m.nsym = oldKeys, oldVals, oldN
		m.reindex()
	})
	if !indexable(m.keys[p]) {
		m.nsym--
	}
	m.keys = append(append([]value(nil), m.keys[:p]...), m.keys[p+1:]...)
	m.vals = append(append([]value(nil), m.vals[:p]...), m.vals[p+1:]...)
	m.reindex()
}

func (m *omap) reindex() {
	m.idx = map[value]int{}
	for p, k := range m.keys {
		if indexable(k) {
			m.idx[k] = p
		}
	}
}

// omapIter iterates over a snapshot of the entries in a fixed order.
type omapIter struct {
	m     *omap
	order []int
	keys  []value
	pos   int
	i     *interpreter
}

func (it *omapIter) next() tuple {
	for it.pos < len(it.order) {
		k := it.keys[it.order[it.pos]]
		it.pos++
		// Go semantics: entries deleted during iteration are not produced.
		if p := it.m.find(it.i, k); p >= 0 {
			return tuple{true, k, it.m.vals[p]}
		}
	}
	return tuple{false, nil, nil}
}

var _ = smt.True
