package interp

// Engine plumbing: undo log, stores, append model, bounds checks, map order.

import (
	"fmt"
	"go/types"
	"unsafe"

	"golang.org/x/tools/go/ssa"

	"symgo/smt"
)

// Stats are per-worker counters merged by the explorer.
type Stats struct {
	Paths              int64
	Decisions          int64
	Forks              int64
	Assertions         int64
	UnknownFeasibility int64
	UnknownAssert      int64
	ConcretizeOverflow int64
	Steps              int64
	Imprecise          int64
	LazyForced         int64
	FDSat              int64
	FDUnsat            int64
	FDCrossChecked     int64
	FDMismatch         int64
	FallbackQueries    int64
	FallbackDecided    int64
}

func (i *interpreter) fallbackSolver(name string) *smt.Solver {
	if s, ok := i.fallbacks[name]; ok {
		return s
	}
	s, err := smt.NewSolver(name, i.cfg.SolverTimeoutMs*3)
	if err != nil {
		s = nil
	}
	i.fallbacks[name] = s
	return s
}

// ---------------------------------------------------------------- undo log

type undoEntry struct {
	addr *value
	old  value
	fn   func()
}

func (i *interpreter) logUndo(fn func()) {
	if i.undoOn {
		i.undo = append(i.undo, undoEntry{fn: fn})
	}
}

func (i *interpreter) logAddr(addr *value) {
	if i.undoOn {
		i.undo = append(i.undo, undoEntry{addr: addr, old: *addr})
	}
}

// logSlice records the current contents of s.
func (i *interpreter) logSlice(s []value) {
	if i.undoOn {
		for k := range s {
			i.undo = append(i.undo, undoEntry{addr: &s[k], old: s[k]})
		}
	}
}

func (i *interpreter) rollback(mark int) {
	for k := len(i.undo) - 1; k >= mark; k-- {
		e := i.undo[k]
		if e.fn != nil {
			e.fn()
		} else {
			*e.addr = e.old
		}
	}
	for k := mark; k < len(i.undo); k++ {
		i.undo[k] = undoEntry{}
	}
	i.undo = i.undo[:mark]
}

// store stores value v of type T into *addr (logged).
func (i *interpreter) store(T types.Type, addr *value, v value) {
	switch T := T.Underlying().(type) {
	case *types.Struct:
		lhs := (*addr).(structure)
		rhs := v.(structure)
		for k := range lhs {
			i.store(T.Field(k).Type(), &lhs[k], rhs[k])
		}
	case *types.Array:
		lhs := (*addr).(array)
		rhs := v.(array)
		for k := range lhs {
			i.store(T.Elem(), &lhs[k], rhs[k])
		}
	default:
		if i.undoOn {
			i.undo = append(i.undo, undoEntry{addr: addr, old: *addr})
		}
		*addr = v
	}
}

// storeAt handles the address operand of an ssa.Store.
func (i *interpreter) storeAt(T types.Type, addr value, v value) {
	switch a := addr.(type) {
	case *value:
		if a == nil {
			panic(runtimeError("invalid memory address or nil pointer dereference"))
		}
		i.sharedAccess(nil, a, true)
		i.store(T, a, v)
	case symElemPtr:
		k := i.path.concretize(a.idx)
		i.store(T, &a.elems[k], v)
	default:
		panic(fmt.Sprintf("store: unexpected address %T", addr))
	}
}

// appendSlice is Go's append on the boxed representation.  The element
// representation (interface{}, 16 bytes) coincides in size with types.MalType,
// so the growth policy of the host runtime equals the one the target program
// observes for []MalType; for other element sizes capacities may differ
// (listed as an environment model).
func (i *interpreter) appendSlice(s, add []value) []value {
	if len(add) == 0 {
		return s
	}
	if len(s)+len(add) <= cap(s) {
		// in place: overwrites the spare capacity, which may be visible through aliases
		spare := s[len(s) : len(s)+len(add)]
		i.logSlice(spare)
	}
	return append(s, add...)
}

// boundsCheck decides idx within [0,n) or panics like Go; returns the index
// as a term of the width it came with.
func (i *interpreter) boundsCheck(idx *smt.Term, t types.Type, n int) *smt.Term {
	signed := false
	if b := basicOf(t); b != nil && signedKind(b.Kind()) {
		signed = true
	}
	if idx.W < 64 {
		if signed {
			idx = smt.Sext(idx, 64)
		} else {
			idx = smt.Zext(idx, 64)
		}
	}
	var inRange *smt.Term
	if signed {
		inRange = smt.And(smt.Bin(smt.OpSle, smt.Const(64, 0), idx), smt.Bin(smt.OpSlt, idx, smt.Const(64, uint64(n))))
	} else {
		inRange = smt.Bin(smt.OpUlt, idx, smt.Const(64, uint64(n)))
	}
	if n == 0 || !i.path.decide(inRange) {
		panic(runtimeError(fmt.Sprintf("index out of range [symbolic] with length %d", n)))
	}
	return idx
}

// mapOrder returns the iteration order for a map with n entries: insertion
// order, or a symbolically chosen permutation when the harness asked for it.
func (i *interpreter) mapOrder(n int) []int {
	order := make([]int, n)
	for k := range order {
		order[k] = k
	}
	if i.path == nil || !i.cfg.SymbolicMapOrder || n < 2 || n > 4 {
		return order
	}
	// choose a permutation by successive choices (Lehmer code)
	for k := 0; k < n-1; k++ {
		j := k + i.path.chooseIndex(n-k)
		order[k], order[j] = order[j], order[k]
	}
	return order
}

// chooseIndex is a non-solver decision among n alternatives (schedules, map orders).
func (p *pathCtx) chooseIndex(n int) int {
	if n <= 1 || p.setup {
		return 0 // setup runs one deterministic schedule
	}
	if p.inReplay() {
		v := p.prefix[p.pos]
		p.pos++
		return int(v)
	}
	p.i.stats.Decisions++
	for k := 1; k < n; k++ {
		p.i.stats.Forks++
		p.i.push(WorkItem{Prefix: appendCopy(p.prefix, uint64(k)), Model: copyModel(p.model), fd: p.childFD(nil)})
	}
	p.prefix = append(p.prefix, 0)
	p.pos++
	return 0
}

// ---------------------------------------------------------------- function identities

func (i *interpreter) funcPtr(fn *ssa.Function) uintptr {
	if p, ok := i.funcPtrs[fn]; ok {
		return p
	}
	p := uintptr(unsafe.Pointer(fn))
	i.funcPtrs[fn] = p
	i.funcIDs[p] = fn
	return p
}
