// Copyright 2013 The Go Authors. All rights reserved.
// Use of this source code is governed by a BSD-style
// license that can be found in the LICENSE file.

// Package ssa/interp defines an interpreter for the SSA
// representation of Go programs.
//
// This interpreter is provided as an adjunct for testing the SSA
// construction algorithm.  Its purpose is to provide a minimal
// metacircular implementation of the dynamic semantics of each SSA
// instruction.  It is not, and will never be, a production-quality Go
// interpreter.
//
// The following is a partial list of Go features that are currently
// unsupported or incomplete in the interpreter.
//
// * Unsafe operations, including all uses of unsafe.Pointer, are
// impossible to support given the "boxed" value representation we
// have chosen.
//
// * The reflect package is only partially implemented.
//
// * The "testing" package is no longer supported because it
// depends on low-level details that change too often.
//
// * "sync/atomic" operations are not atomic due to the "boxed" value
// representation: it is not possible to read, modify and write an
// interface value atomically. As a consequence, Mutexes are currently
// broken.
//
// * recover is only partially implemented.  Also, the interpreter
// makes no attempt to distinguish target panics from interpreter
// crashes.
//
// * the sizes of the int, uint and uintptr types in the target
// program are assumed to be the same as those of the interpreter
// itself.
//
// * all values occupy space, even those of types defined by the spec
// to have zero size, e.g. struct{}.  This can cause asymptotic
// performance degradation.
//
// * os.Exit is implemented using panic, causing deferred functions to
// run.
package interp // import "golang.org/x/tools/go/ssa/interp"

import (
	"fmt"
	"go/token"
	"go/types"
	"log"
	"os"
	"runtime"
	"runtime/debug"
	"slices"
	"sync"

	"golang.org/x/tools/go/ssa"

	"symgo/smt"
)

// mustDeref returns the element type of a pointer type.
func mustDeref(t types.Type) types.Type {
	if p, ok := t.Underlying().(*types.Pointer); ok {
		return p.Elem()
	}
	panic(fmt.Sprintf("mustDeref: %s is not a pointer", t))
}

type continuation int

const (
	kNext continuation = iota
	kReturn
	kJump
)

// Mode is a bitmask of options affecting the interpreter.
type Mode uint

const (
	DisableRecover Mode = 1 << iota // Disable recover() in target programs; show interpreter crash instead.
	EnableTracing                   // Print a trace of all instructions as they are interpreted.
)

type methodSet map[string]*ssa.Function

// State shared between all interpreted goroutines.
type interpreter struct {
	osArgs             []value                // the value of os.Args
	prog               *ssa.Program           // the SSA program
	globals            map[*ssa.Global]*value // addresses of global variables (immutable)
	mode               Mode                   // interpreter options
	reflectPackage     *ssa.Package           // the fake reflect package
	errorMethods       methodSet              // the method set of reflect.error, which implements the error interface.
	rtypeMethods       methodSet              // the method set of rtype, which implements the reflect.Type interface.
	runtimeErrorString types.Type             // the runtime.errorString type
	sizes              types.Sizes            // the effective type-sizing function
	goroutines         int32                  // atomically updated

	// symbolic execution state (one interpreter per worker)
	path      *pathCtx
	solver    *smt.Solver
	stats     Stats
	undo      []undoEntry
	undoOn    bool
	push      func(WorkItem)
	report    func(Violation)
	funcIDs   map[uintptr]*ssa.Function
	funcPtrs  map[*ssa.Function]uintptr
	fnCount   map[*ssa.Function]int64
	initOK    func(pkgPath string) bool
	uninitRead map[string]bool
	files     map[string]value // os.ReadFile model: name -> string or sstr
	sched     *scheduler
	vclock    value // virtual clock (int64 ns or term)
	cfg       *Config
	typeCache map[string]types.Type
	harnessState map[string]value
	fdTick    int
	tick      int // logical clock for vrt.Tick
	fallbacks map[string]*smt.Solver
	syncUses  map[interface{}]*syncUse // per path: who read / modified each synchronisation object
	hot       *hotSet                  // read sites that are scheduling points (shared by the workers)
	hotGrew   func()
	setupMutexes int
}

type deferred struct {
	fn    value
	args  []value
	instr *ssa.Defer
	tail  *deferred
}

type frame struct {
	i                *interpreter
	caller           *frame
	fn               *ssa.Function
	block, prevBlock *ssa.BasicBlock
	env              []value             // dynamic values of SSA variables, indexed by fnInfo.idx
	info             *fnInfo
	locals           []value
	defers           *deferred
	result           value
	panicking        bool
	panic            interface{}
	phitemps         []value // temporaries for parallel phi assignment
	depth            int     // number of live activations below and including this one
	thr              *thread
	cur              ssa.Instruction // instruction being executed (for reporting preemption sites)
}

func (fr *frame) get(key ssa.Value) value {
	switch key := key.(type) {
	case nil:
		// Hack; simplifies handling of optional attributes
		// such as ssa.Slice.{Low,High}.
		return nil
	case *ssa.Function, *ssa.Builtin:
		return key
	case *ssa.Const:
		return constValue(key)
	case *ssa.Global:
		if r, ok := fr.i.globals[key]; ok {
			return r
		}
	}
	if k, ok := fr.info.idx[key]; ok {
		return fr.env[k]
	}
	panic(fmt.Sprintf("get: no value for %T: %v", key, key.Name()))
}

// runDefer runs a deferred call d.
// It always returns normally, but may set or clear fr.panic.
func (fr *frame) runDefer(d *deferred) {
	if fr.i.mode&EnableTracing != 0 {
		fmt.Fprintf(os.Stderr, "%s: invoking deferred function call\n",
			fr.i.prog.Fset.Position(d.instr.Pos()))
	}
	var ok bool
	defer func() {
		if !ok {
			// Deferred call created a new state of panic.
			p := recover()
			if ep, isEng := p.(enginePanic); isEng {
				panic(ep)
			}
			fr.panicking = true
			fr.panic = p
		}
	}()
	call(fr.i, fr, d.instr.Pos(), d.fn, d.args)
	ok = true
}

// runDefers executes fr's deferred function calls in LIFO order.
//
// On entry, fr.panicking indicates a state of panic; if
// true, fr.panic contains the panic value.
//
// On completion, if a deferred call started a panic, or if no
// deferred call recovered from a previous state of panic, then
// runDefers itself panics after the last deferred call has run.
//
// If there was no initial state of panic, or it was recovered from,
// runDefers returns normally.
func (fr *frame) runDefers() {
	for d := fr.defers; d != nil; d = d.tail {
		fr.runDefer(d)
	}
	fr.defers = nil
	if fr.panicking {
		panic(fr.panic) // new panic, or still panicking
	}
}

// lookupMethod returns the method set for type typ, which may be one
// of the interpreter's fake types.
func lookupMethod(i *interpreter, typ types.Type, meth *types.Func) *ssa.Function {
	switch typ {
	case rtypeType:
		return i.rtypeMethods[meth.Id()]
	case errorType:
		return i.errorMethods[meth.Id()]
	}
	return i.prog.LookupMethod(typ, meth.Pkg(), meth.Name())
}

// visitInstr interprets a single ssa.Instruction within the activation
// record frame.  It returns a continuation value indicating where to
// read the next instruction from.
func visitInstr(fr *frame, instr ssa.Instruction) continuation {
	fr.cur = instr
	if p := fr.i.path; p != nil {
		p.steps++
		if p.steps > p.budget {
			panic(abortBudget{"step budget exhausted"})
		}
	}
	switch instr := instr.(type) {
	case *ssa.DebugRef:
		// no-op

	case *ssa.UnOp:
		fr.set(instr, unop(fr, instr, fr.get(instr.X)))

	case *ssa.BinOp:
		fr.set(instr, binop(fr.i, instr.Op, instr.X.Type(), fr.get(instr.X), fr.get(instr.Y)))

	case *ssa.Call:
		fn, args := prepareCall(fr, &instr.Call)
		fr.set(instr, call(fr.i, fr, instr.Pos(), fn, args))

	case *ssa.ChangeInterface:
		fr.set(instr, fr.get(instr.X))

	case *ssa.ChangeType:
		fr.set(instr, fr.get(instr.X)) // (can't fail)

	case *ssa.Convert:
		fr.set(instr, conv(fr.i, instr.Type(), instr.X.Type(), fr.get(instr.X)))

	case *ssa.SliceToArrayPointer:
		fr.set(instr, sliceToArrayPointer(instr.Type(), instr.X.Type(), fr.get(instr.X)))

	case *ssa.MakeInterface:
		fr.set(instr, iface{t: instr.X.Type(), v: fr.get(instr.X)})

	case *ssa.Extract:
		fr.set(instr, fr.get(instr.Tuple).(tuple)[instr.Index])

	case *ssa.Slice:
		fr.set(instr, slice(fr.i, fr.get(instr.X), fr.get(instr.Low), fr.get(instr.High), fr.get(instr.Max)))

	case *ssa.Return:
		switch len(instr.Results) {
		case 0:
		case 1:
			fr.result = fr.get(instr.Results[0])
		default:
			var res []value
			for _, r := range instr.Results {
				res = append(res, fr.get(r))
			}
			fr.result = tuple(res)
		}
		fr.block = nil
		return kReturn

	case *ssa.RunDefers:
		fr.runDefers()

	case *ssa.Panic:
		panic(targetPanic{fr.i.forceIface(fr, fr.get(instr.X))})

	case *ssa.Send:
		fr.i.chanSend(fr, fr.get(instr.Chan).(*chanModel), fr.get(instr.X))

	case *ssa.Store:
		fr.i.storeAt(mustDeref(instr.Addr.Type()), fr.get(instr.Addr), fr.get(instr.Val))

	case *ssa.If:
		succ := 1
		if fr.i.asBool(fr.get(instr.Cond)) {
			succ = 0
		}
		fr.prevBlock, fr.block = fr.block, fr.block.Succs[succ]
		return kJump

	case *ssa.Jump:
		fr.prevBlock, fr.block = fr.block, fr.block.Succs[0]
		return kJump

	case *ssa.Defer:
		fn, args := prepareCall(fr, &instr.Call)
		defers := &fr.defers
		if into := fr.get(instr.DeferStack); into != nil {
			defers = into.(**deferred)
		}
		*defers = &deferred{
			fn:    fn,
			args:  args,
			instr: instr,
			tail:  *defers,
		}

	case *ssa.Go:
		fn, args := prepareCall(fr, &instr.Call)
		fr.i.spawn(fr, instr.Pos(), fn, args)

	case *ssa.MakeChan:
		fr.set(instr, newChan(int(fr.i.concInt(fr.get(instr.Size), true))))

	case *ssa.Alloc:
		var addr *value
		if instr.Heap {
			// new
			addr = new(value)
			fr.set(instr, addr)
		} else {
			// local
			addr = fr.lookup(instr).(*value)
		}
		*addr = zero(mustDeref(instr.Type()))

	case *ssa.MakeSlice:
		c := fr.i.concInt(fr.get(instr.Cap), true)
		l := fr.i.concInt(fr.get(instr.Len), true)
		if l < 0 || l > 1<<24 {
			panic(runtimeError("makeslice: len out of range"))
		}
		if c < l || c > 1<<24 {
			panic(runtimeError("makeslice: cap out of range"))
		}
		slice := make([]value, c)
		tElt := instr.Type().Underlying().(*types.Slice).Elem()
		for i := range slice {
			slice[i] = zero(tElt)
		}
		fr.set(instr, slice[:l])

	case *ssa.MakeMap:
		fr.set(instr, makeMap(instr.Type().Underlying().(*types.Map).Key(), 0))

	case *ssa.Range:
		fr.set(instr, rangeIter(fr.i, fr.get(instr.X), instr.X.Type()))

	case *ssa.Next:
		fr.set(instr, fr.get(instr.Iter).(iter).next())

	case *ssa.FieldAddr:
		p := fr.get(instr.X).(*value)
		if p == nil {
			panic(runtimeError("invalid memory address or nil pointer dereference"))
		}
		fr.set(instr, &(*p).(structure)[instr.Field])

	case *ssa.Field:
		fr.set(instr, fr.get(instr.X).(structure)[instr.Field])

	case *ssa.IndexAddr:
		x := fr.get(instr.X)
		idx := fr.get(instr.Index)
		var elems []value
		switch x := x.(type) {
		case []value:
			elems = x
		case *value: // *array
			if x == nil {
				panic(runtimeError("invalid memory address or nil pointer dereference"))
			}
			elems = (*x).(array)
		default:
			panic(fmt.Sprintf("unexpected x type in IndexAddr: %T", x))
		}
		if it, ok := idx.(*smt.Term); ok {
			it = fr.i.boundsCheck(it, instr.Index.Type(), len(elems))
			fr.set(instr, symElemPtr{elems, it})
		} else {
			k := asInt64(idx)
			if k < 0 || k >= int64(len(elems)) {
				panic(runtimeError(fmt.Sprintf("index out of range [%d] with length %d", k, len(elems))))
			}
			fr.set(instr, &elems[k])
		}

	case *ssa.Index:
		x := fr.get(instr.X)
		idx := fr.get(instr.Index)
		switch x := x.(type) {
		case array:
			if it, ok := idx.(*smt.Term); ok {
				it = fr.i.boundsCheck(it, instr.Index.Type(), len(x))
				fr.set(instr, fr.i.loadSymElem(symElemPtr{x, it}))
			} else {
				k := asInt64(idx)
				if k < 0 || k >= int64(len(x)) {
					panic(runtimeError(fmt.Sprintf("index out of range [%d] with length %d", k, len(x))))
				}
				fr.set(instr, x[k])
			}
		case string, sstr:
			n := strLen(x)
			var k int64
			if it, ok := idx.(*smt.Term); ok {
				it = fr.i.boundsCheck(it, instr.Index.Type(), n)
				if _, iss := x.(string); iss {
					fr.set(instr, fr.i.loadSymElem(symElemPtr{strBytes(x), it}))
					break
				}
				k = int64(fr.i.path.concretize(it))
			} else {
				k = asInt64(idx)
			}
			if k < 0 || k >= int64(n) {
				panic(runtimeError(fmt.Sprintf("index out of range [%d] with length %d", k, n)))
			}
			switch x := x.(type) {
			case string:
				fr.set(instr, x[k])
			case sstr:
				fr.set(instr, x.b[k])
			}
		default:
			panic(fmt.Sprintf("unexpected x type in Index: %T", x))
		}

	case *ssa.Lookup:
		fr.set(instr, lookup(fr.i, instr, fr.get(instr.X), fr.get(instr.Index)))

	case *ssa.MapUpdate:
		m := fr.get(instr.Map)
		key := fr.get(instr.Key)
		v := fr.get(instr.Value)
		switch m := m.(type) {
		case *omap:
			if m == nil {
				panic(runtimeError("assignment to entry in nil map"))
			}
			fr.i.sharedAccess(fr, m, true)
			m.insert(fr.i, key, v)
		default:
			panic(fmt.Sprintf("illegal map type: %T", m))
		}

	case *ssa.TypeAssert:
		fr.set(instr, typeAssert(fr.i, instr, fr.i.forceIface(fr, fr.get(instr.X))))

	case *ssa.MakeClosure:
		var bindings []value
		for _, binding := range instr.Bindings {
			bindings = append(bindings, fr.get(binding))
		}
		fr.set(instr, &closure{instr.Fn.(*ssa.Function), bindings})

	case *ssa.Phi:
		log.Fatal("unreachable") // phis are processed at block entry

	case *ssa.Select:
		fr.set(instr, fr.i.doSelect(fr, instr))

	default:
		panic(fmt.Sprintf("unexpected instruction: %T", instr))
	}

	// if val, ok := instr.(ssa.Value); ok {
	// 	fmt.Println(toString(fr.env[val])) // debugging
	// }

	return kNext
}

// prepareCall determines the function value and argument values for a
// function call in a Call, Go or Defer instruction, performing
// interface method lookup if needed.
func prepareCall(fr *frame, call *ssa.CallCommon) (fn value, args []value) {
	v := fr.get(call.Value)
	if call.Method == nil {
		// Function call.
		fn = v
	} else {
		// Interface method invocation.
		recv := fr.i.forceIface(fr, v)
		if recv.t == nil {
			panic("method invoked on nil interface")
		}
		if f := lookupMethod(fr.i, recv.t, call.Method); f == nil {
			// Unreachable in well-typed programs.
			panic(fmt.Sprintf("method set for dynamic type %v does not contain %s", recv.t, call.Method))
		} else {
			fn = f
		}
		args = append(args, recv.v)
	}
	for _, arg := range call.Args {
		args = append(args, fr.get(arg))
	}
	return
}

// call interprets a call to a function (function, builtin or closure)
// fn with arguments args, returning its result.
// callpos is the position of the callsite.
func call(i *interpreter, caller *frame, callpos token.Pos, fn value, args []value) value {
	switch fn := fn.(type) {
	case *ssa.Function:
		if fn == nil {
			panic("call of nil function") // nil of func type
		}
		return callSSA(i, caller, callpos, fn, args, nil)
	case *closure:
		return callSSA(i, caller, callpos, fn.Fn, args, fn.Env)
	case *ssa.Builtin:
		return callBuiltin(caller, callpos, fn, args)
	}
	panic(fmt.Sprintf("cannot call %T", fn))
}

func loc(fset *token.FileSet, pos token.Pos) string {
	if pos == token.NoPos {
		return ""
	}
	return " at " + fset.Position(pos).String()
}

// callSSA interprets a call to function fn with arguments args,
// and lexical environment env, returning its result.
// callpos is the position of the callsite.
func callSSA(i *interpreter, caller *frame, callpos token.Pos, fn *ssa.Function, args []value, env []value) value {
	if i.mode&EnableTracing != 0 {
		fset := fn.Prog.Fset
		// TODO(adonovan): fix: loc() lies for external functions.
		fmt.Fprintf(os.Stderr, "Entering %s%s.\n", fn, loc(fset, fn.Pos()))
		suffix := ""
		if caller != nil {
			suffix = ", resuming " + caller.fn.String() + loc(fset, callpos)
		}
		defer fmt.Fprintf(os.Stderr, "Leaving %s%s.\n", fn, suffix)
	}
	fr := &frame{
		i:      i,
		caller: caller, // for panic/recover
		fn:     fn,
		depth:  1,
	}
	if caller != nil {
		fr.depth = caller.depth + 1
		fr.thr = caller.thr
		if fr.depth > i.cfg.MaxDepth {
			panic(abortBudget{"call depth exceeded"})
		}
	}
	if fn.Parent() == nil {
		if ext := externalOf(fn); ext != nil {
			if i.mode&EnableTracing != 0 {
				fmt.Fprintln(os.Stderr, "\t(external)")
			}
			i.fnCount[fn]++
			return ext(fr, args)
		}
		if fn.Synthetic == "package initializer" && !i.initOK(fn.Pkg.Pkg.Path()) {
			return nil
		}
		if fn.Blocks == nil {
			unsupported("no code for function: %s", fn.String())
		}
	}
	if fn.Pkg != nil && !i.initOK(fn.Pkg.Pkg.Path()) && i.cfg.denyFn(fn) {
		unsupported("call into unmodelled package function %s", fn.String())
	}
	i.fnCount[fn]++

	// generic function body?
	if fn.TypeParams().Len() > 0 && len(fn.TypeArgs()) == 0 {
		panic("interp requires ssa.BuilderMode to include InstantiateGenerics to execute generics")
	}

	fr.info = infoOf(fn)
	fr.env = make([]value, fr.info.n)
	fr.block = fn.Blocks[0]
	fr.locals = make([]value, len(fn.Locals))
	for i, l := range fn.Locals {
		fr.locals[i] = zero(mustDeref(l.Type()))
		fr.set(l, &fr.locals[i])
	}
	for i, p := range fn.Params {
		fr.set(p, args[i])
	}
	for i, fv := range fn.FreeVars {
		fr.set(fv, env[i])
	}
	thr := i.sched.cur
	savedFrame := thr.frame
	thr.frame = fr
	for fr.block != nil {
		runFrame(fr)
		thr.frame = fr
	}
	thr.frame = savedFrame
	// Destroy the locals to avoid accidental use after return.
	for i := range fn.Locals {
		fr.locals[i] = bad{}
	}
	return fr.result
}

// runFrame executes SSA instructions starting at fr.block and
// continuing until a return, a panic, or a recovered panic.
//
// After a panic, runFrame panics.
//
// After a normal return, fr.result contains the result of the call
// and fr.block is nil.
//
// A recovered panic in a function without named return parameters
// (NRPs) becomes a normal return of the zero value of the function's
// result type.
//
// After a recovered panic in a function with NRPs, fr.result is
// undefined and fr.block contains the block at which to resume
// control.
func runFrame(fr *frame) {
	defer func() {
		if fr.block == nil {
			return // normal return
		}
		if fr.i.mode&DisableRecover != 0 {
			return // let interpreter crash
		}
		p := recover()
		if ep, ok := p.(enginePanic); ok {
			panic(ep) // not visible to the target program
		}
		if re, ok := p.(runtime.Error); ok {
			if _, mine := re.(runtimeError); !mine {
				// a fault inside the engine itself must never look like a target panic
				panic(abortUnsupported{fmt.Sprintf("engine fault in %s: %v\n%s", fr.fn, re, debug.Stack())})
			}
		}
		fr.panicking = true
		fr.panic = p
		if fr.i.mode&EnableTracing != 0 {
			fmt.Fprintf(os.Stderr, "Panicking: %T %v.\n", fr.panic, fr.panic)
		}
		fr.runDefers()
		fr.block = fr.fn.Recover
	}()

	for {
		if fr.i.mode&EnableTracing != 0 {
			fmt.Fprintf(os.Stderr, ".%s:\n", fr.block)
		}

		nonPhis := executePhis(fr)
		for _, instr := range nonPhis {
			if fr.i.mode&EnableTracing != 0 {
				if v, ok := instr.(ssa.Value); ok {
					fmt.Fprintln(os.Stderr, "\t", v.Name(), "=", instr)
				} else {
					fmt.Fprintln(os.Stderr, "\t", instr)
				}
			}
			if visitInstr(fr, instr) == kReturn {
				return
			}
			// Inv: kNext (continue) or kJump (last instr)
		}
	}
}

// executePhis executes the phi-nodes at the start of the current
// block and returns the non-phi instructions.
func executePhis(fr *frame) []ssa.Instruction {
	firstNonPhi := -1
	for i, instr := range fr.block.Instrs {
		if _, ok := instr.(*ssa.Phi); !ok {
			firstNonPhi = i
			break
		}
	}
	// Inv: 0 <= firstNonPhi; every block contains a non-phi.

	nonPhis := fr.block.Instrs[firstNonPhi:]
	if firstNonPhi > 0 {
		phis := fr.block.Instrs[:firstNonPhi]
		// Execute parallel assignment of phis.
		//
		// See "the swap problem" in Briggs et al's "Practical Improvements
		// to the Construction and Destruction of SSA Form" for discussion.
		predIndex := slices.Index(fr.block.Preds, fr.prevBlock)
		fr.phitemps = fr.phitemps[:0]
		for _, phi := range phis {
			phi := phi.(*ssa.Phi)
			if fr.i.mode&EnableTracing != 0 {
				fmt.Fprintln(os.Stderr, "\t", phi.Name(), "=", phi)
			}
			fr.phitemps = append(fr.phitemps, fr.get(phi.Edges[predIndex]))
		}
		for i, phi := range phis {
			fr.set(phi.(*ssa.Phi), fr.phitemps[i])
		}
	}
	return nonPhis
}

// doRecover implements the recover() built-in.
func doRecover(caller *frame) value {
	// recover() must be exactly one level beneath the deferred
	// function (two levels beneath the panicking function) to
	// have any effect.  Thus we ignore both "defer recover()" and
	// "defer f() -> g() -> recover()".
	if caller.i.mode&DisableRecover == 0 &&
		caller != nil && !caller.panicking &&
		caller.caller != nil && caller.caller.panicking {
		caller.caller.panicking = false
		p := caller.caller.panic
		caller.caller.panic = nil

		// TODO(adonovan): support runtime.Goexit.
		switch p := p.(type) {
		case targetPanic:
			// The target program explicitly called panic().
			return p.v
		case runtime.Error:
			// The interpreter encountered a runtime error.
			if mine, ok := p.(runtimeError); ok {
				return iface{caller.i.runtimeErrorString, string(mine)}
			}
			return iface{caller.i.runtimeErrorString, p.Error()}
		case string:
			// The interpreter explicitly called panic().
			return iface{caller.i.runtimeErrorString, p}
		default:
			panic(fmt.Sprintf("unexpected panic type %T in target call to recover()", p))
		}
	}
	return iface{}
}


// fnInfo numbers the SSA values of a function so that a frame's environment
// is a slice instead of a map.
type fnInfo struct {
	idx map[ssa.Value]int
	n   int
}

var fnInfos sync.Map // *ssa.Function -> *fnInfo

func infoOf(fn *ssa.Function) *fnInfo {
	if v, ok := fnInfos.Load(fn); ok {
		return v.(*fnInfo)
	}
	inf := &fnInfo{idx: map[ssa.Value]int{}}
	add := func(v ssa.Value) {
		if _, ok := inf.idx[v]; !ok {
			inf.idx[v] = inf.n
			inf.n++
		}
	}
	for _, p := range fn.Params {
		add(p)
	}
	for _, fv := range fn.FreeVars {
		add(fv)
	}
	for _, l := range fn.Locals {
		add(l)
	}
	for _, b := range fn.Blocks {
		for _, ins := range b.Instrs {
			if v, ok := ins.(ssa.Value); ok {
				add(v)
			}
		}
	}
	if fn.Recover != nil {
		for _, ins := range fn.Recover.Instrs {
			if v, ok := ins.(ssa.Value); ok {
				add(v)
			}
		}
	}
	fnInfos.Store(fn, inf)
	return inf
}

func (fr *frame) set(key ssa.Value, v value) { fr.env[fr.info.idx[key]] = v }

func (fr *frame) lookup(key ssa.Value) value { return fr.env[fr.info.idx[key]] }

var extCache sync.Map // *ssa.Function -> externalFn (or nil)

func externalOf(fn *ssa.Function) externalFn {
	if v, ok := extCache.Load(fn); ok {
		e, _ := v.(externalFn)
		return e
	}
	e := externals[fn.String()]
	if e == nil {
		extCache.Store(fn, false)
	} else {
		extCache.Store(fn, e)
	}
	return e
}
