package interp

// Exploration driver: stateless prefix-replay DFS over decision sequences,
// run by a pool of workers each owning one interpreter and one solver.

import (
	"fmt"
	"go/ast"
	"go/token"
	"go/types"
	"os"
	"path/filepath"
	"runtime/debug"
	"sort"
	"strings"
	"sync"
	"time"

	"golang.org/x/tools/go/packages"
	"golang.org/x/tools/go/ssa"
	"golang.org/x/tools/go/ssa/ssautil"

	"symgo/smt"
)

// Config controls one exploration.
type Config struct {
	Harness          string // function name in the harness package, e.g. "Harness_pairs"
	Setup            string // optional setup function (run once per worker, state shared through globals)
	Workers          int
	StepBudget       int64
	MaxDepth         int
	MaxPaths         int64
	MaxThreads       int
	MaxPreemptions   int
	SymbolicMapOrder bool
	Solver           string
	SolverTimeoutMs  int
	WallLimit        time.Duration
	Seed             int64
	Params           map[string]int64 // harness parameters (vrt.Param)
	MaxViolations    int
	ProbeHot         bool // run a non-forking round-robin pass first to collect hot read sites
	ProbeMode        bool // (internal) this exploration is that pass
	Trace            bool
	InitAllow        []string // extra package path prefixes whose init is executed
	StopOnViolation  bool
	NoFD             bool // disable the finite-domain fast path (every query goes to the SMT solver)
	CrossCheckFD     int  // cross-check every n-th fast-path verdict against the SMT solver (0 = never)
	Fallback         []string // solvers asked when the primary answers unknown
	HangIsViolation  bool     // exhausting the step budget is a violation (termination properties)
}

func (c *Config) denyFn(fn *ssa.Function) bool { return false }

// PathOutcome classifies how a path ended.
type PathOutcome string

// Result aggregates an exploration.
type Result struct {
	Outcomes     map[string]int64
	Stats        Stats
	Queries      [3]int64
	SolverTime   time.Duration
	SolverErrors int64
	Violations   []Violation
	ViolCount    map[string]int64 // by signature
	Inconclusive map[string]int64 // by reason
	Functions    map[string]int64 // executed SSA functions -> calls
	Samples      []map[string]uint64
	SampleObs    [][]string
	Reached      map[string]int64
	Exhaustive   bool
	Unexplored   int
	Wall         time.Duration
	UninitReads  []string
	MaxSteps     int64
	StoppedEarly string
	Rounds       int      // explorations started (restarts after a new hot read site + 1)
	HotSites     []string // read-only synchronisation sites treated as scheduling points
}

// Program is a loaded and built SSA program with a harness package.
type Program struct {
	Prog    *ssa.Program
	Pkgs    []*packages.Package
	Main    *ssa.Package
	Embeds  map[*ssa.Global]string
	LoadDur time.Duration
}

// Load loads the harness package (and its import closure) and builds SSA.
func Load(dir string, pattern string, overlay map[string][]byte, tags []string) (*Program, error) {
	t0 := time.Now()
	cfg := &packages.Config{Mode: packages.LoadAllSyntax | packages.NeedEmbedFiles | packages.NeedEmbedPatterns, Dir: dir, Overlay: overlay,
		Env: append(os.Environ(), "GOFLAGS=-mod=mod", "GOPROXY=off", "GOSUMDB=off", "GOTOOLCHAIN=local")}
	if len(tags) > 0 {
		cfg.BuildFlags = []string{"-tags=" + strings.Join(tags, ",")}
	}
	pkgs, err := packages.Load(cfg, pattern)
	if err != nil {
		return nil, err
	}
	if packages.PrintErrors(pkgs) > 0 {
		return nil, fmt.Errorf("packages contain errors")
	}
	prog, spkgs := ssautil.AllPackages(pkgs, ssa.InstantiateGenerics|ssa.SanityCheckFunctions)
	prog.Build()
	p := &Program{Prog: prog, Pkgs: pkgs, Main: spkgs[0], Embeds: map[*ssa.Global]string{}}
	// go:embed string variables
	packages.Visit(pkgs, nil, func(pk *packages.Package) {
		sp := prog.Package(pk.Types)
		if sp == nil {
			return
		}
		for _, f := range pk.Syntax {
			for _, d := range f.Decls {
				gd, ok := d.(*ast.GenDecl)
				if !ok || gd.Tok != token.VAR || gd.Doc == nil {
					continue
				}
				for _, c := range gd.Doc.List {
					if strings.HasPrefix(c.Text, "//go:embed ") {
						name := strings.TrimSpace(strings.TrimPrefix(c.Text, "//go:embed "))
						for _, spec := range gd.Specs {
							vs := spec.(*ast.ValueSpec)
							g, _ := sp.Members[vs.Names[0].Name].(*ssa.Global)
							if g == nil {
								continue
							}
							dir := filepath.Dir(pk.Fset.Position(f.Pos()).Filename)
							b, err := os.ReadFile(filepath.Join(dir, name))
							if err == nil {
								p.Embeds[g] = string(b)
							}
						}
					}
				}
			}
		}
	})
	p.LoadDur = time.Since(t0)
	return p, nil
}

var defaultInitAllow = []string{
	"github.com/jig/", "verif.example/", "nodot",
	"errors", "io", "strconv", "unicode", "unicode/utf8", "strings", "bytes", "context", "sort",
	"internal/bytealg", "internal/stringslite", "internal/itoa", "math/bits", "math",
}

type explorer struct {
	prog   *Program
	cfg    *Config
	mu     sync.Mutex
	cond   *sync.Cond
	stack  []WorkItem
	active int
	stop   bool
	res    *Result
	start  time.Time
	paths  int64
	sigSeen map[string]bool
	hangs   int
	hot     *hotSet
	restart bool
}

// Explore runs the harness over all decision sequences.  When a path finds
// that a read-only synchronisation site can interact with another thread (see
// sched.go, hotSet) the exploration is restarted with that site as a scheduling
// point; the result is that of the last, uninterrupted exploration.
func Explore(p *Program, cfg Config) (*Result, error) {
	hot := &hotSet{sites: map[string]bool{}}
	start := time.Now()
	if cfg.ProbeHot && cfg.MaxPreemptions > 0 {
		// cheap first pass with one fixed round-robin schedule per data path: conflicts are flagged whatever the order of the two
		// operations, so it finds (nearly) all hot sites before the real exploration starts
		pc := cfg
		pc.ProbeMode = true
		pc.MaxPaths = 60000
		pc.StopOnViolation = false
		for k := 0; k < 20; k++ {
			_, restart, err := exploreOnce(p, pc, hot, start)
			if err != nil {
				return nil, err
			}
			if !restart {
				break
			}
		}
		fmt.Fprintf(os.Stderr, "probe pass: %d hot read sites after %.1fs\n", len(hot.sites), time.Since(start).Seconds())
	}
	for round := 1; ; round++ {
		res, restart, err := exploreOnce(p, cfg, hot, start)
		if err != nil {
			return nil, err
		}
		if restart {
			fmt.Fprintf(os.Stderr, "round %d abandoned after %.1fs and %d paths: %d hot read sites now\n", round, time.Since(start).Seconds(), res.Stats.Paths, len(hot.sites))
		}
		if !restart {
			res.Rounds = round
			for s := range hot.sites {
				res.HotSites = append(res.HotSites, s)
			}
			sort.Strings(res.HotSites)
			res.Wall = time.Since(start)
			return res, nil
		}
	}
}

func exploreOnce(p *Program, cfg Config, hot *hotSet, start time.Time) (*Result, bool, error) {
	if cfg.Workers <= 0 {
		cfg.Workers = 1
	}
	if cfg.StepBudget == 0 {
		cfg.StepBudget = 5_000_000
	}
	if cfg.MaxDepth == 0 {
		cfg.MaxDepth = 2000
	}
	if cfg.MaxThreads == 0 {
		cfg.MaxThreads = 4
	}
	if cfg.Solver == "" {
		cfg.Solver = "z3"
	}
	if cfg.SolverTimeoutMs == 0 {
		cfg.SolverTimeoutMs = 10000
	}
	if cfg.MaxViolations == 0 {
		cfg.MaxViolations = 50
	}
	if p.Main.Func(cfg.Harness) == nil {
		return nil, false, fmt.Errorf("harness function %s not found in %s", cfg.Harness, p.Main.Pkg.Path())
	}
	ex := &explorer{prog: p, cfg: &cfg, start: start, sigSeen: map[string]bool{}, hot: hot}
	ex.cond = sync.NewCond(&ex.mu)
	ex.res = &Result{Outcomes: map[string]int64{}, ViolCount: map[string]int64{}, Inconclusive: map[string]int64{},
		Functions: map[string]int64{}, Reached: map[string]int64{}}
	ex.stack = []WorkItem{{}}
	var wg sync.WaitGroup
	errs := make(chan error, cfg.Workers)
	for w := 0; w < cfg.Workers; w++ {
		wg.Add(1)
		go func(w int) {
			defer wg.Done()
			if err := ex.worker(w); err != nil {
				errs <- err
				ex.mu.Lock()
				ex.stop = true
				ex.cond.Broadcast()
				ex.mu.Unlock()
			}
		}(w)
	}
	wg.Wait()
	select {
	case err := <-errs:
		return nil, false, err
	default:
	}
	ex.res.Wall = time.Since(ex.start)
	ex.res.Unexplored = len(ex.stack)
	ex.res.Exhaustive = len(ex.stack) == 0 && ex.res.Stats.ConcretizeOverflow == 0
	// out of time: report what was explored rather than restarting for ever
	timedOut := ex.cfg.WallLimit > 0 && time.Since(ex.start) > ex.cfg.WallLimit
	if ex.restart && timedOut {
		ex.res.Exhaustive = false
	}
	return ex.res, ex.restart && !timedOut, nil
}

// hotGrew: a worker found a new hot read site; abandon this exploration.
func (ex *explorer) hotGrew() {
	ex.mu.Lock()
	ex.restart = true
	ex.stop = true
	ex.cond.Broadcast()
	ex.mu.Unlock()
}

func (ex *explorer) pop() (WorkItem, bool) {
	ex.mu.Lock()
	defer ex.mu.Unlock()
	for {
		if ex.stop {
			return WorkItem{}, false
		}
		if ex.cfg.WallLimit > 0 && time.Since(ex.start) > ex.cfg.WallLimit {
			ex.stop = true
			ex.cond.Broadcast()
			return WorkItem{}, false
		}
		if ex.cfg.MaxPaths > 0 && ex.paths >= ex.cfg.MaxPaths {
			ex.stop = true
			ex.cond.Broadcast()
			return WorkItem{}, false
		}
		if n := len(ex.stack); n > 0 {
			it := ex.stack[n-1]
			ex.stack = ex.stack[:n-1]
			ex.active++
			ex.paths++
			return it, true
		}
		if ex.active == 0 {
			ex.cond.Broadcast()
			return WorkItem{}, false
		}
		ex.cond.Wait()
	}
}

func (ex *explorer) done() {
	ex.mu.Lock()
	ex.active--
	if ex.active == 0 && len(ex.stack) == 0 {
		ex.cond.Broadcast()
	}
	ex.mu.Unlock()
}

func (ex *explorer) push(it WorkItem) {
	ex.mu.Lock()
	ex.stack = append(ex.stack, it)
	ex.cond.Signal()
	ex.mu.Unlock()
}

func sigOf(v Violation) string { return v.Kind + ":" + v.Site + ":" + v.Msg }

func (ex *explorer) report(v Violation) {
	ex.mu.Lock()
	defer ex.mu.Unlock()
	sig := sigOf(v)
	ex.res.ViolCount[sig]++
	if !ex.sigSeen[sig] && len(ex.res.Violations) < ex.cfg.MaxViolations {
		ex.sigSeen[sig] = true
		ex.res.Violations = append(ex.res.Violations, v)
	}
	if v.Kind == "hang" {
		// every hanging path burns the whole step budget: a handful of them decides the run
		ex.hangs++
	}
	if ex.cfg.StopOnViolation || ex.hangs >= 24 {
		if !ex.cfg.StopOnViolation && !ex.stop {
			ex.res.StoppedEarly = "24 hanging paths found: exploration stopped (violations already decide the verdict)"
		}
		ex.stop = true
		ex.cond.Broadcast()
	}
}

func (ex *explorer) newInterpreter() (*interpreter, error) {
	p := ex.prog
	i := &interpreter{
		prog:       p.Prog,
		globals:    make(map[*ssa.Global]*value),
		sizes:      &types.StdSizes{WordSize: 8, MaxAlign: 8},
		goroutines: 1,
		funcIDs:    map[uintptr]*ssa.Function{},
		funcPtrs:   map[*ssa.Function]uintptr{},
		fnCount:    map[*ssa.Function]int64{},
		uninitRead: map[string]bool{},
		files:      map[string]value{},
		cfg:        ex.cfg,
		typeCache:  map[string]types.Type{},
		harnessState: map[string]value{},
		fallbacks:  map[string]*smt.Solver{},
	}
	allow := append(append([]string(nil), defaultInitAllow...), ex.cfg.InitAllow...)
	i.initOK = func(path string) bool {
		for _, a := range allow {
			if path == a || (strings.HasSuffix(a, "/") && strings.HasPrefix(path, a)) {
				return true
			}
		}
		return false
	}
	i.push = ex.push
	i.report = ex.report
	i.hot = ex.hot
	i.hotGrew = ex.hotGrew
	if rt := i.prog.ImportedPackage("runtime"); rt != nil {
		i.runtimeErrorString = rt.Type("errorString").Object().Type()
	} else {
		return nil, fmt.Errorf("program does not include package runtime")
	}
	initReflect(i)
	for _, pkg := range i.prog.AllPackages() {
		for _, m := range pkg.Members {
			if g, ok := m.(*ssa.Global); ok {
				cell := zero(mustDeref(g.Type()))
				i.globals[g] = &cell
			}
		}
	}
	for g, s := range p.Embeds {
		*i.globals[g] = s
	}
	s, err := smt.NewSolver(ex.cfg.Solver, ex.cfg.SolverTimeoutMs)
	if err != nil {
		return nil, err
	}
	i.solver = s
	return i, nil
}

// runGuarded runs f and classifies its termination.
func (i *interpreter) runGuarded(f func()) (outcome string, detail string) {
	defer func() {
		p := recover()
		if p == nil {
			return
		}
		switch p := p.(type) {
		case abortAssume:
			outcome = "assume_pruned"
		case abortDone:
			outcome = "pass"
		case abortUnsupported:
			outcome, detail = "inconclusive_unsupported", p.what
		case abortBudget:
			outcome, detail = "inconclusive_budget", p.what
		case abortUnknown:
			outcome, detail = "inconclusive_unknown", p.what
		case abortDeadlock:
			outcome, detail = "deadlock", p.what
		case fatalError:
			outcome, detail = "panic", "fatal error: "+string(p)
		case threadPanic:
			outcome, detail = "panic", "goroutine panic: "+panicString(i, p.v)
		case enginePanic:
			outcome, detail = "inconclusive_unsupported", p.engineAbort()
		case targetPanic:
			outcome, detail = "panic", panicString(i, p)
		case runtimeError:
			outcome, detail = "panic", p.Error()
		case string:
			outcome, detail = "panic", p
		default:
			outcome, detail = "inconclusive_unsupported", fmt.Sprintf("engine fault: %v\n%s", p, debug.Stack())
		}
	}()
	f()
	return "pass", ""
}

func panicString(i *interpreter, p interface{}) string {
	switch p := p.(type) {
	case targetPanic:
		if itf, ok := p.v.(iface); ok && itf.t != nil {
			// error values: call Error()
			if s, ok := i.tryErrorString(itf); ok {
				return fmt.Sprintf("%s: %s", itf.t, s)
			}
			return fmt.Sprintf("%s: %s", itf.t, toString(itf.v))
		}
		return toString(p.v)
	case runtimeError:
		return p.Error()
	case string:
		return p
	}
	return fmt.Sprint(p)
}

func (ex *explorer) worker(w int) (err error) {
	i, err := ex.newInterpreter()
	if err != nil {
		return err
	}
	defer i.solver.Close()
	defer func() {
		for _, fs := range i.fallbacks {
			if fs != nil {
				fs.Close()
			}
		}
	}()
	// package initialisation + setup, concretely
	i.resetSched()
	i.path = newPathCtx(i, WorkItem{}, 4_000_000_000)
	i.path.setup = true
	out, detail := i.runGuarded(func() {
		call(i, nil, token.NoPos, ex.prog.Main.Func("init"), nil)
		if ex.cfg.Setup != "" {
			fn := ex.prog.Main.Func(ex.cfg.Setup)
			if fn == nil {
				panic("no setup function " + ex.cfg.Setup)
			}
			call(i, nil, token.NoPos, fn, nil)
		}
	})
	i.killThreads()
	if out != "pass" {
		return fmt.Errorf("initialisation/setup failed: %s: %s", out, detail)
	}
	if len(i.path.pc) > 0 || len(i.path.prefix) > 0 {
		return fmt.Errorf("setup must be concrete")
	}
	i.undoOn = true
	mark := len(i.undo)
	harness := ex.prog.Main.Func(ex.cfg.Harness)
	local := &Result{Outcomes: map[string]int64{}, Inconclusive: map[string]int64{}, Reached: map[string]int64{}}
	var samples []map[string]uint64
	var sampleObs [][]string
	var maxSteps int64
	for {
		it, ok := ex.pop()
		if !ok {
			break
		}
		i.resetSched()
		i.tick = 0
		p := newPathCtx(i, it, ex.cfg.StepBudget)
		i.path = p
		out, detail := i.runGuarded(func() { call(i, nil, token.NoPos, harness, nil) })
		i.killThreads()
		if out == "pass" && p.inReplay() {
			out, detail = "inconclusive_unsupported", "replay divergence: path ended before its decision prefix was consumed"
		}
		switch out {
		case "inconclusive_budget":
			if ex.cfg.HangIsViolation {
				p.violation("hang", "evaluation did not return within the step budget", "", p.model)
				out = "hang"
			}
		case "panic":
			p.violation("panic", detail, "", p.model)
		case "deadlock":
			p.violation("deadlock", detail, "", p.model)
		}
		if p.flagged && out == "pass" {
			out = "pass_flagged_unknown"
		}
		local.Outcomes[out]++
		if strings.HasPrefix(out, "inconclusive") {
			d := detail
			if k := strings.IndexByte(d, '\n'); k >= 0 && !ex.cfg.Trace {
				d = d[:k]
			}
			local.Inconclusive[out+": "+d]++
		}
		for l := range p.reached {
			local.Reached[l]++
		}
		if p.steps > maxSteps {
			maxSteps = p.steps
		}
		i.stats.Steps += p.steps
		i.stats.Paths++
		i.stats.Imprecise += int64(p.imprecise)
		if (out == "pass") && len(samples) < 4 && len(p.order) > 0 {
			samples = append(samples, p.sampleInputs())
			sampleObs = append(sampleObs, p.renderObs(p.model))
		}
		i.path = nil
		i.rollback(mark)
		ex.done()
	}
	// merge
	ex.mu.Lock()
	defer ex.mu.Unlock()
	r := ex.res
	for k, v := range local.Outcomes {
		r.Outcomes[k] += v
	}
	for k, v := range local.Inconclusive {
		r.Inconclusive[k] += v
	}
	for k, v := range local.Reached {
		r.Reached[k] += v
	}
	for fn, c := range i.fnCount {
		r.Functions[fn.String()] += c
	}
	st := i.stats
	r.Stats.Paths += st.Paths
	r.Stats.Decisions += st.Decisions
	r.Stats.Forks += st.Forks
	r.Stats.Assertions += st.Assertions
	r.Stats.UnknownFeasibility += st.UnknownFeasibility
	r.Stats.UnknownAssert += st.UnknownAssert
	r.Stats.ConcretizeOverflow += st.ConcretizeOverflow
	r.Stats.Steps += st.Steps
	r.Stats.Imprecise += st.Imprecise
	r.Stats.LazyForced += st.LazyForced
	r.Stats.FDSat += st.FDSat
	r.Stats.FDUnsat += st.FDUnsat
	r.Stats.FDCrossChecked += st.FDCrossChecked
	r.Stats.FDMismatch += st.FDMismatch
	r.Stats.FallbackQueries += st.FallbackQueries
	r.Stats.FallbackDecided += st.FallbackDecided
	for k := 0; k < 3; k++ {
		r.Queries[k] += int64(i.solver.Queries[k])
	}
	r.SolverTime += i.solver.Time
	r.SolverErrors += int64(i.solver.Errors)
	if len(r.Samples) < 8 {
		r.Samples = append(r.Samples, samples...)
		r.SampleObs = append(r.SampleObs, sampleObs...)
	}
	if maxSteps > r.MaxSteps {
		r.MaxSteps = maxSteps
	}
	for k := range i.uninitRead {
		r.UninitReads = append(r.UninitReads, k)
	}
	sort.Strings(r.UninitReads)
	return nil
}
