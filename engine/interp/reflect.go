// Copyright 2013 The Go Authors. All rights reserved.
// Use of this source code is governed by a BSD-style
// license that can be found in the LICENSE file.

package interp

// Emulated "reflect" package.
//
// We completely replace the built-in "reflect" package.
// The only thing clients can depend upon are that reflect.Type is an
// interface and reflect.Value is an (opaque) struct.

import (
	"fmt"
	"go/token"
	"go/types"
	"reflect"
	"unsafe"

	"golang.org/x/tools/go/ssa"

)

type opaqueType struct {
	types.Type
	name string
}

func (t *opaqueType) String() string { return t.name }

// A bogus "reflect" type-checker package.  Shared across interpreters.
var reflectTypesPackage = types.NewPackage("reflect", "reflect")

// rtype is the concrete type the interpreter uses to implement the
// reflect.Type interface.
//
// type rtype <opaque>
var rtypeType = makeNamedType("rtype", &opaqueType{nil, "rtype"})

// error is an (interpreted) named type whose underlying type is string.
// The interpreter uses it for all implementations of the built-in error
// interface that it creates.
// We put it in the "reflect" package for expedience.
//
// type error string
var errorType = makeNamedType("error", &opaqueType{nil, "error"})

func makeNamedType(name string, underlying types.Type) *types.Named {
	obj := types.NewTypeName(token.NoPos, reflectTypesPackage, name, nil)
	return types.NewNamed(obj, underlying, nil)
}

func makeReflectValue(t types.Type, v value) value {
	return structure{rtype{t}, v}
}

// Given a reflect.Value, returns its rtype.
func rV2T(v value) rtype {
	// the zero reflect.Value (e.g. an element of make([]reflect.Value, n)) has no rtype yet
	if rt, ok := v.(structure)[0].(rtype); ok {
		return rt
	}
	return rtype{}
}

// Given a reflect.Value, returns the underlying interpreter value.
func rV2V(v value) value {
	return v.(structure)[1]
}

// makeReflectType boxes up an rtype in a reflect.Type interface.
func makeReflectType(rt rtype) value {
	return iface{rtypeType, rt}
}

func ext۰reflect۰rtype۰Bits(fr *frame, args []value) value {
	// Signature: func (t reflect.rtype) int
	rt := args[0].(rtype).t
	basic, ok := rt.Underlying().(*types.Basic)
	if !ok {
		panic(fmt.Sprintf("reflect.Type.Bits(%T): non-basic type", rt))
	}
	return int(fr.i.sizes.Sizeof(basic)) * 8
}

func ext۰reflect۰rtype۰Elem(fr *frame, args []value) value {
	// Signature: func (t reflect.rtype) reflect.Type
	return makeReflectType(rtype{args[0].(rtype).t.Underlying().(interface {
		Elem() types.Type
	}).Elem()})
}

func ext۰reflect۰rtype۰Field(fr *frame, args []value) value {
	// Signature: func (t reflect.rtype, i int) reflect.StructField
	st := args[0].(rtype).t.Underlying().(*types.Struct)
	i := args[1].(int)
	f := st.Field(i)
	return structure{
		f.Name(),
		f.Pkg().Path(),
		makeReflectType(rtype{f.Type()}),
		st.Tag(i),
		0,         // TODO(adonovan): offset
		[]value{}, // TODO(adonovan): indices
		f.Anonymous(),
	}
}

func ext۰reflect۰rtype۰In(fr *frame, args []value) value {
	// Signature: func (t reflect.rtype, i int) int
	i := args[1].(int)
	return makeReflectType(rtype{args[0].(rtype).t.(*types.Signature).Params().At(i).Type()})
}

func ext۰reflect۰rtype۰Kind(fr *frame, args []value) value {
	// Signature: func (t reflect.rtype) uint
	return uint(reflectKind(args[0].(rtype).t))
}

func ext۰reflect۰rtype۰NumField(fr *frame, args []value) value {
	// Signature: func (t reflect.rtype) int
	return args[0].(rtype).t.Underlying().(*types.Struct).NumFields()
}

func ext۰reflect۰rtype۰NumIn(fr *frame, args []value) value {
	// Signature: func (t reflect.rtype) int
	return args[0].(rtype).t.Underlying().(*types.Signature).Params().Len()
}

func ext۰reflect۰rtype۰NumMethod(fr *frame, args []value) value {
	// Signature: func (t reflect.rtype) int
	return fr.i.prog.MethodSets.MethodSet(args[0].(rtype).t).Len()
}

func ext۰reflect۰rtype۰NumOut(fr *frame, args []value) value {
	// Signature: func (t reflect.rtype) int
	return args[0].(rtype).t.Underlying().(*types.Signature).Results().Len()
}

func ext۰reflect۰rtype۰Out(fr *frame, args []value) value {
	// Signature: func (t reflect.rtype, i int) int
	i := args[1].(int)
	return makeReflectType(rtype{args[0].(rtype).t.Underlying().(*types.Signature).Results().At(i).Type()})
}

func ext۰reflect۰rtype۰Size(fr *frame, args []value) value {
	// Signature: func (t reflect.rtype) uintptr
	return uintptr(fr.i.sizes.Sizeof(args[0].(rtype).t))
}

func ext۰reflect۰rtype۰String(fr *frame, args []value) value {
	// Signature: func (t reflect.rtype) string
	return args[0].(rtype).t.String()
}

func ext۰reflect۰New(fr *frame, args []value) value {
	// Signature: func (t reflect.Type) reflect.Value
	t := args[0].(iface).v.(rtype).t
	alloc := zero(t)
	return makeReflectValue(types.NewPointer(t), &alloc)
}

func ext۰reflect۰SliceOf(fr *frame, args []value) value {
	// Signature: func (t reflect.rtype) Type
	return makeReflectType(rtype{types.NewSlice(args[0].(iface).v.(rtype).t)})
}

func ext۰reflect۰TypeOf(fr *frame, args []value) value {
	// Signature: func (t reflect.rtype) Type
	a0 := fr.i.forceIface(fr, args[0])
	if a0.t == nil {
		return iface{}
	}
	return makeReflectType(rtype{a0.t})
}

func ext۰reflect۰ValueOf(fr *frame, args []value) value {
	// Signature: func (interface{}) reflect.Value
	itf := fr.i.forceIface(fr, args[0])
	return makeReflectValue(itf.t, itf.v)
}

// ---- additions for the reflective binder of jig/lisp

func ext۰reflect۰rtype۰Name(fr *frame, args []value) value {
	switch t := types.Unalias(args[0].(rtype).t).(type) {
	case *types.Named:
		return t.Obj().Name()
	case *types.Basic:
		return t.Name()
	}
	return ""
}

func ext۰reflect۰rtype۰PkgPath(fr *frame, args []value) value {
	if t, ok := types.Unalias(args[0].(rtype).t).(*types.Named); ok && t.Obj().Pkg() != nil {
		return t.Obj().Pkg().Path()
	}
	return ""
}

func ext۰reflect۰rtype۰IsVariadic(fr *frame, args []value) value {
	sig, ok := args[0].(rtype).t.Underlying().(*types.Signature)
	if !ok {
		panic(targetPanic{iface{fr.i.runtimeErrorString, "reflect: IsVariadic of non-func type " + args[0].(rtype).t.String()}})
	}
	return sig.Variadic()
}

func ext۰reflect۰rtype۰Implements(fr *frame, args []value) value {
	u := args[1].(iface)
	if u.t == nil {
		panic(targetPanic{iface{fr.i.runtimeErrorString, "reflect: nil type passed to Type.Implements"}})
	}
	it, ok := u.v.(rtype).t.Underlying().(*types.Interface)
	if !ok {
		panic(targetPanic{iface{fr.i.runtimeErrorString, "reflect: non-interface type passed to Type.Implements"}})
	}
	return types.Implements(args[0].(rtype).t, it)
}

func ext۰reflect۰rtype۰AssignableTo(fr *frame, args []value) value {
	return types.AssignableTo(args[0].(rtype).t, args[1].(iface).v.(rtype).t)
}

func ext۰reflect۰rtype۰Comparable(fr *frame, args []value) value {
	return types.Comparable(args[0].(rtype).t)
}

func reflectPanic(fr *frame, msg string) {
	panic(targetPanic{iface{fr.i.runtimeErrorString, msg}})
}

// ext۰reflect۰Value۰Call models reflect.Value.Call: argument count and
// assignability checks with reflect's panics, variadic packing, result boxing.
func ext۰reflect۰Value۰Call(fr *frame, args []value) value {
	i := fr.i
	fv := args[0]
	in := args[1].([]value)
	ft := rV2T(fv).t
	if ft == nil {
		reflectPanic(fr, "reflect: call of reflect.Value.Call on zero Value")
	}
	sig, ok := ft.Underlying().(*types.Signature)
	if !ok {
		reflectPanic(fr, "reflect: call of reflect.Value.Call on "+ft.String()+" Value")
	}
	fn := rV2V(fv)
	switch f := fn.(type) {
	case *ssa.Function:
		if f == nil {
			reflectPanic(fr, "reflect: call of nil function")
		}
	}
	n := sig.Params().Len()
	if sig.Variadic() {
		if len(in) < n-1 {
			reflectPanic(fr, "reflect: Call with too few input arguments")
		}
	} else {
		if len(in) < n {
			reflectPanic(fr, "reflect: Call with too few input arguments")
		}
		if len(in) > n {
			reflectPanic(fr, "reflect: Call with too many input arguments")
		}
	}
	for _, x := range in {
		if rV2T(x).t == nil {
			reflectPanic(fr, "reflect: Call using zero Value argument")
		}
	}
	// coerce one reflect.Value to a parameter of type pt
	coerce := func(x value, pt types.Type) value {
		xt := rV2T(x).t
		xv := rV2V(x)
		if types.IsInterface(xt) {
			// interface-kinded Value (e.g. from reflect.Zero of an interface type)
			if lz, isLz := xv.(*lazyVal); isLz {
				xv = fr.i.forceIface(fr, lz)
			}
			inner, _ := xv.(iface)
			if types.IsInterface(pt) {
				if inner.t == nil {
					return iface{}
				}
				if !types.AssignableTo(xt, pt) && !types.AssignableTo(inner.t, pt) {
					reflectPanic(fr, "reflect: Call using "+i.typeString(xt)+" as type "+i.typeString(pt))
				}
				return inner
			}
			reflectPanic(fr, "reflect: Call using "+i.typeString(xt)+" as type "+i.typeString(pt))
		}
		if !types.AssignableTo(xt, pt) {
			reflectPanic(fr, "reflect: Call using "+i.typeString(xt)+" as type "+i.typeString(pt))
		}
		if types.IsInterface(pt) {
			return iface{xt, xv}
		}
		return xv
	}
	var cargs []value
	fixed := n
	if sig.Variadic() {
		fixed = n - 1
	}
	for k := 0; k < fixed; k++ {
		cargs = append(cargs, coerce(in[k], sig.Params().At(k).Type()))
	}
	if sig.Variadic() {
		et := sig.Params().At(n - 1).Type().(*types.Slice).Elem()
		var rest []value
		for k := fixed; k < len(in); k++ {
			rest = append(rest, coerce(in[k], et))
		}
		cargs = append(cargs, rest)
	}
	res := call(i, fr, token.NoPos, fn, cargs)
	nres := sig.Results().Len()
	var out []value
	switch nres {
	case 0:
	case 1:
		out = []value{makeReflectValue(sig.Results().At(0).Type(), res)}
	default:
		tup := res.(tuple)
		for k := 0; k < nres; k++ {
			out = append(out, makeReflectValue(sig.Results().At(k).Type(), tup[k]))
		}
	}
	return out
}

func ext۰reflect۰Zero(fr *frame, args []value) value {
	// Signature: func (t reflect.Type) reflect.Value
	t := args[0].(iface).v.(rtype).t
	return makeReflectValue(t, zero(t))
}

func reflectKind(t types.Type) reflect.Kind {
	switch t := t.(type) {
	case *types.Named, *types.Alias:
		return reflectKind(t.Underlying())
	case *types.Basic:
		switch t.Kind() {
		case types.Bool:
			return reflect.Bool
		case types.Int:
			return reflect.Int
		case types.Int8:
			return reflect.Int8
		case types.Int16:
			return reflect.Int16
		case types.Int32:
			return reflect.Int32
		case types.Int64:
			return reflect.Int64
		case types.Uint:
			return reflect.Uint
		case types.Uint8:
			return reflect.Uint8
		case types.Uint16:
			return reflect.Uint16
		case types.Uint32:
			return reflect.Uint32
		case types.Uint64:
			return reflect.Uint64
		case types.Uintptr:
			return reflect.Uintptr
		case types.Float32:
			return reflect.Float32
		case types.Float64:
			return reflect.Float64
		case types.Complex64:
			return reflect.Complex64
		case types.Complex128:
			return reflect.Complex128
		case types.String:
			return reflect.String
		case types.UnsafePointer:
			return reflect.UnsafePointer
		}
	case *types.Array:
		return reflect.Array
	case *types.Chan:
		return reflect.Chan
	case *types.Signature:
		return reflect.Func
	case *types.Interface:
		return reflect.Interface
	case *types.Map:
		return reflect.Map
	case *types.Pointer:
		return reflect.Ptr
	case *types.Slice:
		return reflect.Slice
	case *types.Struct:
		return reflect.Struct
	}
	panic(fmt.Sprint("unexpected type: ", t))
}

func ext۰reflect۰Value۰Kind(fr *frame, args []value) value {
	// Signature: func (reflect.Value) uint
	return uint(reflectKind(rV2T(args[0]).t))
}

func ext۰reflect۰Value۰String(fr *frame, args []value) value {
	// Signature: func (reflect.Value) string
	return toString(rV2V(args[0]))
}

func ext۰reflect۰Value۰Type(fr *frame, args []value) value {
	// Signature: func (reflect.Value) reflect.Type
	return makeReflectType(rV2T(args[0]))
}

func ext۰reflect۰Value۰Uint(fr *frame, args []value) value {
	// Signature: func (reflect.Value) uint64
	switch v := rV2V(args[0]).(type) {
	case uint:
		return uint64(v)
	case uint8:
		return uint64(v)
	case uint16:
		return uint64(v)
	case uint32:
		return uint64(v)
	case uint64:
		return uint64(v)
	case uintptr:
		return uint64(v)
	}
	panic("reflect.Value.Uint")
}

func ext۰reflect۰Value۰Len(fr *frame, args []value) value {
	// Signature: func (reflect.Value) int
	switch v := rV2V(args[0]).(type) {
	case string:
		return len(v)
	case sstr:
		return len(v.b)
	case array:
		return len(v)
	case *chanModel:
		return len(v.buf)
	case []value:
		return len(v)
	case *omap:
		return v.len()
	default:
		panic(fmt.Sprintf("reflect.(Value).Len(%v)", v))
	}
}

func ext۰reflect۰Value۰MapIndex(fr *frame, args []value) value {
	// Signature: func (reflect.Value) Value
	tValue := rV2T(args[0]).t.Underlying().(*types.Map).Elem()
	k := rV2V(args[1])
	switch m := rV2V(args[0]).(type) {
	case *omap:
		if v, ok := m.lookup(fr.i, k); ok {
			return makeReflectValue(tValue, v)
		}
	default:
		panic(fmt.Sprintf("(reflect.Value).MapIndex(%T, %T)", m, k))
	}
	return makeReflectValue(nil, nil)
}

func ext۰reflect۰Value۰MapKeys(fr *frame, args []value) value {
	// Signature: func (reflect.Value) []Value
	var keys []value
	tKey := rV2T(args[0]).t.Underlying().(*types.Map).Key()
	switch v := rV2V(args[0]).(type) {
	case *omap:
		if v != nil {
			for _, k := range v.keys {
				keys = append(keys, makeReflectValue(tKey, k))
			}
		}
	default:
		panic(fmt.Sprintf("(reflect.Value).MapKeys(%T)", v))
	}
	return keys
}

func ext۰reflect۰Value۰NumField(fr *frame, args []value) value {
	// Signature: func (reflect.Value) int
	return len(rV2V(args[0]).(structure))
}

func ext۰reflect۰Value۰NumMethod(fr *frame, args []value) value {
	// Signature: func (reflect.Value) int
	return fr.i.prog.MethodSets.MethodSet(rV2T(args[0]).t).Len()
}

func ext۰reflect۰Value۰Pointer(fr *frame, args []value) value {
	// Signature: func (v reflect.Value) uintptr
	switch v := rV2V(args[0]).(type) {
	case *value:
		return uintptr(unsafe.Pointer(v))
	case *chanModel:
		return uintptr(unsafe.Pointer(v))
	case []value:
		return reflect.ValueOf(v).Pointer()
	case *omap:
		return uintptr(unsafe.Pointer(v))
	case *ssa.Function:
		if v == nil {
			return uintptr(0)
		}
		return fr.i.funcPtr(v)
	case *closure:
		return fr.i.funcPtr(v.Fn)
	default:
		panic(fmt.Sprintf("reflect.(Value).Pointer(%T)", v))
	}
}

func ext۰reflect۰Value۰Index(fr *frame, args []value) value {
	// Signature: func (v reflect.Value, i int) Value
	i := args[1].(int)
	t := rV2T(args[0]).t.Underlying()
	switch v := rV2V(args[0]).(type) {
	case array:
		return makeReflectValue(t.(*types.Array).Elem(), v[i])
	case []value:
		return makeReflectValue(t.(*types.Slice).Elem(), v[i])
	default:
		panic(fmt.Sprintf("reflect.(Value).Index(%T)", v))
	}
}

func ext۰reflect۰Value۰Bool(fr *frame, args []value) value {
	// Signature: func (reflect.Value) bool
	return rV2V(args[0]).(bool)
}

func ext۰reflect۰Value۰CanAddr(fr *frame, args []value) value {
	// Signature: func (v reflect.Value) bool
	// Always false for our representation.
	return false
}

func ext۰reflect۰Value۰CanInterface(fr *frame, args []value) value {
	// Signature: func (v reflect.Value) bool
	// Always true for our representation.
	return true
}

func ext۰reflect۰Value۰Elem(fr *frame, args []value) value {
	// Signature: func (v reflect.Value) reflect.Value
	switch x := rV2V(args[0]).(type) {
	case iface:
		return makeReflectValue(x.t, x.v)
	case *value:
		var v value
		if x != nil {
			v = *x
		}
		return makeReflectValue(rV2T(args[0]).t.Underlying().(*types.Pointer).Elem(), v)
	default:
		panic(fmt.Sprintf("reflect.(Value).Elem(%T)", x))
	}
}

func ext۰reflect۰Value۰Field(fr *frame, args []value) value {
	// Signature: func (v reflect.Value, i int) reflect.Value
	v := args[0]
	i := args[1].(int)
	return makeReflectValue(rV2T(v).t.Underlying().(*types.Struct).Field(i).Type(), rV2V(v).(structure)[i])
}

func ext۰reflect۰Value۰Float(fr *frame, args []value) value {
	// Signature: func (reflect.Value) float64
	switch v := rV2V(args[0]).(type) {
	case float32:
		return float64(v)
	case float64:
		return float64(v)
	}
	panic("reflect.Value.Float")
}

func ext۰reflect۰Value۰Interface(fr *frame, args []value) value {
	// Signature: func (v reflect.Value) interface{}
	return ext۰reflect۰valueInterface(fr, args)
}

func ext۰reflect۰Value۰Int(fr *frame, args []value) value {
	// Signature: func (reflect.Value) int64
	switch x := rV2V(args[0]).(type) {
	case int:
		return int64(x)
	case int8:
		return int64(x)
	case int16:
		return int64(x)
	case int32:
		return int64(x)
	case int64:
		return x
	default:
		panic(fmt.Sprintf("reflect.(Value).Int(%T)", x))
	}
}

func ext۰reflect۰Value۰IsNil(fr *frame, args []value) value {
	// Signature: func (reflect.Value) bool
	switch x := rV2V(args[0]).(type) {
	case *value:
		return x == nil
	case *chanModel:
		return x == nil
	case *omap:
		return x == nil
	case iface:
		return x.t == nil
	case []value:
		return x == nil
	case *ssa.Function:
		return x == nil
	case *ssa.Builtin:
		return x == nil
	case *closure:
		return x == nil
	default:
		panic(fmt.Sprintf("reflect.(Value).IsNil(%T)", x))
	}
}

func ext۰reflect۰Value۰IsValid(fr *frame, args []value) value {
	// Signature: func (reflect.Value) bool
	return rV2V(args[0]) != nil
}

func ext۰reflect۰Value۰Set(fr *frame, args []value) value {
	// TODO(adonovan): implement.
	return nil
}

func ext۰reflect۰valueInterface(fr *frame, args []value) value {
	// Signature: func (v reflect.Value, safe bool) interface{}
	v := args[0].(structure)
	t := rV2T(v).t
	if t == nil {
		panic(targetPanic{iface{fr.i.runtimeErrorString, "reflect: call of reflect.Value.Interface on zero Value"}})
	}
	if types.IsInterface(t) {
		// the payload of an interface-typed Value is the interface value itself
		switch inner := rV2V(v).(type) {
		case iface:
			return inner
		case *lazyVal:
			return inner
		}
		return iface{}
	}
	return iface{t, rV2V(v)}
}

func ext۰reflect۰error۰Error(fr *frame, args []value) value {
	return args[0]
}

// newMethod creates a new method of the specified name, package and receiver type.
func newMethod(pkg *ssa.Package, recvType types.Type, name string) *ssa.Function {
	// TODO(adonovan): fix: hack: currently the only part of Signature
	// that is needed is the "pointerness" of Recv.Type, and for
	// now, we'll set it to always be false since we're only
	// concerned with rtype.  Encapsulate this better.
	sig := types.NewSignature(types.NewVar(token.NoPos, nil, "recv", recvType), nil, nil, false)
	fn := pkg.Prog.NewFunction(name, sig, "fake reflect method")
	fn.Pkg = pkg
	return fn
}

func initReflect(i *interpreter) {
	i.reflectPackage = &ssa.Package{
		Prog:    i.prog,
		Pkg:     reflectTypesPackage,
		Members: make(map[string]ssa.Member),
	}

	// Clobber the type-checker's notion of reflect.Value's
	// underlying type so that it more closely matches the fake one
	// (at least in the number of fields---we lie about the type of
	// the rtype field).
	//
	// We must ensure that calls to (ssa.Value).Type() return the
	// fake type so that correct "shape" is used when allocating
	// variables, making zero values, loading, and storing.
	//
	// TODO(adonovan): obviously this is a hack.  We need a cleaner
	// way to fake the reflect package (almost---DeepEqual is fine).
	// One approach would be not to even load its source code, but
	// provide fake source files.  This would guarantee that no bad
	// information leaks into other packages.
	if r := i.prog.ImportedPackage("reflect"); r != nil {
		rV := r.Pkg.Scope().Lookup("Value").Type().(*types.Named)

		// delete bodies of the old methods
		mset := i.prog.MethodSets.MethodSet(rV)
		for j := 0; j < mset.Len(); j++ {
			i.prog.MethodValue(mset.At(j)).Blocks = nil
		}

		tEface := types.NewInterface(nil, nil).Complete()
		rV.SetUnderlying(types.NewStruct([]*types.Var{
			types.NewField(token.NoPos, r.Pkg, "t", tEface, false), // a lie
			types.NewField(token.NoPos, r.Pkg, "v", tEface, false),
		}, nil))
	}

	i.rtypeMethods = methodSet{
		"Bits":      newMethod(i.reflectPackage, rtypeType, "Bits"),
		"Elem":      newMethod(i.reflectPackage, rtypeType, "Elem"),
		"Field":     newMethod(i.reflectPackage, rtypeType, "Field"),
		"In":        newMethod(i.reflectPackage, rtypeType, "In"),
		"Kind":      newMethod(i.reflectPackage, rtypeType, "Kind"),
		"NumField":  newMethod(i.reflectPackage, rtypeType, "NumField"),
		"NumIn":     newMethod(i.reflectPackage, rtypeType, "NumIn"),
		"NumMethod": newMethod(i.reflectPackage, rtypeType, "NumMethod"),
		"NumOut":    newMethod(i.reflectPackage, rtypeType, "NumOut"),
		"Out":       newMethod(i.reflectPackage, rtypeType, "Out"),
		"Size":      newMethod(i.reflectPackage, rtypeType, "Size"),
		"String":    newMethod(i.reflectPackage, rtypeType, "String"),
		"Name":         newMethod(i.reflectPackage, rtypeType, "Name"),
		"PkgPath":      newMethod(i.reflectPackage, rtypeType, "PkgPath"),
		"IsVariadic":   newMethod(i.reflectPackage, rtypeType, "IsVariadic"),
		"Implements":   newMethod(i.reflectPackage, rtypeType, "Implements"),
		"AssignableTo": newMethod(i.reflectPackage, rtypeType, "AssignableTo"),
		"Comparable":   newMethod(i.reflectPackage, rtypeType, "Comparable"),
	}
	i.errorMethods = methodSet{
		"Error": newMethod(i.reflectPackage, errorType, "Error"),
	}
}
