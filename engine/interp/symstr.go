package interp

// Strings whose bytes may be symbolic.  Length is always concrete.

import (
	"go/token"
	"go/types"
	"unicode/utf8"

	"symgo/smt"
)

// sstr is a string with at least one symbolic byte.  Elements are uint8 or
// *smt.Term of width 8.
type sstr struct{ b []value }

func isStrVal(v value) bool {
	switch v.(type) {
	case string, sstr:
		return true
	}
	return false
}

func strLen(v value) int {
	switch s := v.(type) {
	case string:
		return len(s)
	case sstr:
		return len(s.b)
	}
	panic("strLen: not a string")
}

// strBytes returns the bytes of a string value as values (fresh slice).
func strBytes(v value) []value {
	switch s := v.(type) {
	case string:
		r := make([]value, len(s))
		for i := 0; i < len(s); i++ {
			r[i] = s[i]
		}
		return r
	case sstr:
		return append([]value(nil), s.b...)
	}
	panic("strBytes: not a string")
}

// mkStr builds a string value from byte values, collapsing to a Go string
// when every byte is concrete.
func mkStr(b []value) value {
	conc := true
	for _, x := range b {
		if _, ok := x.(uint8); !ok {
			conc = false
			break
		}
	}
	if conc {
		bs := make([]byte, len(b))
		for i, x := range b {
			bs[i] = x.(uint8)
		}
		return string(bs)
	}
	return sstr{append([]value(nil), b...)}
}

func byteTerm(v value) *smt.Term {
	switch x := v.(type) {
	case uint8:
		return smt.Const(8, uint64(x))
	case *smt.Term:
		return x
	}
	panic("byteTerm")
}

func strEqTerm(x sstr, y value) *smt.Term {
	if strLen(y) != len(x.b) {
		return smt.False
	}
	yb := strBytes(y)
	r := smt.True
	for i := range x.b {
		r = smt.And(r, smt.Eq(byteTerm(x.b[i]), byteTerm(yb[i])))
		if r == smt.False {
			return r
		}
	}
	return r
}

// strLessTerm: x < y lexicographically (bytes unsigned).
func strLessTerm(xb, yb []value, orEqual bool) *smt.Term {
	// build from the end
	n := len(xb)
	if len(yb) < n {
		n = len(yb)
	}
	var tail *smt.Term
	switch {
	case len(xb) < len(yb):
		tail = smt.True
	case len(xb) == len(yb):
		tail = smt.Bool(orEqual)
	default:
		tail = smt.False
	}
	for i := n - 1; i >= 0; i-- {
		a, b := byteTerm(xb[i]), byteTerm(yb[i])
		tail = smt.Ite(smt.Bin(smt.OpUlt, a, b), smt.True, smt.Ite(smt.Eq(a, b), tail, smt.False))
	}
	return tail
}

func strBinop(i *interpreter, op token.Token, x, y value) value {
	xb, yb := strBytes(x), strBytes(y)
	switch op {
	case token.ADD:
		return mkStr(append(xb, yb...))
	case token.EQL:
		return norm(types.Bool, eqTerm(i, nil, x, y))
	case token.NEQ:
		return norm(types.Bool, smt.Not(eqTerm(i, nil, x, y)))
	case token.LSS:
		return norm(types.Bool, strLessTerm(xb, yb, false))
	case token.LEQ:
		return norm(types.Bool, strLessTerm(xb, yb, true))
	case token.GTR:
		return norm(types.Bool, strLessTerm(yb, xb, false))
	case token.GEQ:
		return norm(types.Bool, strLessTerm(yb, xb, true))
	}
	unsupported("string binop %s", op)
	return nil
}

// decodeRuneAt decodes the UTF-8 sequence starting at b[pos] with Go's
// semantics (invalid encodings yield (RuneError, 1)), deciding on byte
// classes through the path context.  The rune may be a term.
func (i *interpreter) decodeRuneAt(b []value, pos int) (value, int) {
	n := len(b) - pos
	if n <= 0 {
		return int32(utf8.RuneError), 0
	}
	// fast path: concrete bytes
	allc := true
	lim := pos + 4
	if lim > len(b) {
		lim = len(b)
	}
	for k := pos; k < lim; k++ {
		if _, ok := b[k].(uint8); !ok {
			allc = false
			break
		}
	}
	if allc {
		var buf [4]byte
		for k := pos; k < lim; k++ {
			buf[k-pos] = b[k].(uint8)
		}
		r, w := utf8.DecodeRune(buf[:lim-pos])
		return int32(r), w
	}
	p := i.path
	in := func(x *smt.Term, lo, hi uint64) *smt.Term {
		return smt.And(smt.Bin(smt.OpUle, smt.Const(8, lo), x), smt.Bin(smt.OpUle, x, smt.Const(8, hi)))
	}
	z32 := func(x *smt.Term, m uint64, sh uint64) *smt.Term {
		return smt.Bin(smt.OpShl, smt.Zext(smt.Bin(smt.OpBAnd, x, smt.Const(8, m)), 32), smt.Const(32, sh))
	}
	or := func(ts ...*smt.Term) *smt.Term {
		r := ts[0]
		for _, t := range ts[1:] {
			r = smt.Bin(smt.OpBOr, r, t)
		}
		return r
	}
	bad := func() (value, int) { return int32(utf8.RuneError), 1 }
	b0 := byteTerm(b[pos])
	if p.decide(smt.Bin(smt.OpUlt, b0, smt.Const(8, 0x80))) {
		return norm(types.Int32, smt.Zext(b0, 32)), 1
	}
	if p.decide(in(b0, 0xC2, 0xDF)) {
		if n < 2 {
			return bad()
		}
		b1 := byteTerm(b[pos+1])
		if !p.decide(in(b1, 0x80, 0xBF)) {
			return bad()
		}
		return norm(types.Int32, or(z32(b0, 0x1F, 6), z32(b1, 0x3F, 0))), 2
	}
	if p.decide(in(b0, 0xE0, 0xEF)) {
		if n < 3 {
			return bad()
		}
		b1, b2 := byteTerm(b[pos+1]), byteTerm(b[pos+2])
		lo, hi := uint64(0x80), uint64(0xBF)
		if p.decide(smt.Eq(b0, smt.Const(8, 0xE0))) {
			lo = 0xA0
		} else if p.decide(smt.Eq(b0, smt.Const(8, 0xED))) {
			hi = 0x9F
		}
		if !p.decide(in(b1, lo, hi)) || !p.decide(in(b2, 0x80, 0xBF)) {
			return bad()
		}
		return norm(types.Int32, or(z32(b0, 0x0F, 12), z32(b1, 0x3F, 6), z32(b2, 0x3F, 0))), 3
	}
	if p.decide(in(b0, 0xF0, 0xF4)) {
		if n < 4 {
			return bad()
		}
		b1, b2, b3 := byteTerm(b[pos+1]), byteTerm(b[pos+2]), byteTerm(b[pos+3])
		lo, hi := uint64(0x80), uint64(0xBF)
		if p.decide(smt.Eq(b0, smt.Const(8, 0xF0))) {
			lo = 0x90
		} else if p.decide(smt.Eq(b0, smt.Const(8, 0xF4))) {
			hi = 0x8F
		}
		if !p.decide(in(b1, lo, hi)) || !p.decide(in(b2, 0x80, 0xBF)) || !p.decide(in(b3, 0x80, 0xBF)) {
			return bad()
		}
		return norm(types.Int32, or(z32(b0, 0x07, 18), z32(b1, 0x3F, 12), z32(b2, 0x3F, 6), z32(b3, 0x3F, 0))), 4
	}
	return bad()
}

// encodeRune returns the UTF-8 bytes of a (concrete) rune.
func encodeRune(r rune) []value {
	var buf [4]byte
	n := utf8.EncodeRune(buf[:], r)
	out := make([]value, n)
	for k := 0; k < n; k++ {
		out[k] = buf[k]
	}
	return out
}

// sstrIter ranges over a string with symbolic bytes.
type sstrIter struct {
	i   *interpreter
	b   []value
	pos int
}

func (it *sstrIter) next() tuple {
	if it.pos >= len(it.b) {
		return tuple{false, nil, nil}
	}
	r, w := it.i.decodeRuneAt(it.b, it.pos)
	k := it.pos
	it.pos += w
	return tuple{true, k, r}
}

type stringIter struct {
	s   string
	pos int
}

func (it *stringIter) next() tuple {
	if it.pos >= len(it.s) {
		return tuple{false, nil, nil}
	}
	r, w := utf8.DecodeRuneInString(it.s[it.pos:])
	k := it.pos
	it.pos += w
	return tuple{true, k, int32(r)}
}

// ---------------------------------------------------------------- symbolic element pointers

// symElemPtr is &a[idx] for an array (or slice) of concrete scalars and a
// symbolic index: loads become an ite-chain, stores concretize.
type symElemPtr struct {
	elems []value
	idx   *smt.Term
}

// loadSymElem builds ite(idx==k0 ..) grouped by equal element values.
func (i *interpreter) loadSymElem(p symElemPtr) value {
	n := len(p.elems)
	kind := kindOfValue(p.elems[0])
	if kind == types.Invalid || kind == types.Bool {
		// not scalars: concretize the index
		k := i.path.concretize(p.idx)
		return p.elems[k]
	}
	// group consecutive runs of equal values into ranges
	type run struct {
		lo, hi int
		v      uint64
	}
	var runs []run
	for k := 0; k < n; k++ {
		var cv uint64
		switch x := p.elems[k].(type) {
		case int:
			cv = uint64(x)
		case int8:
			cv = uint64(x)
		case int16:
			cv = uint64(x)
		case int32:
			cv = uint64(x)
		case int64:
			cv = uint64(x)
		case uint:
			cv = uint64(x)
		case uint8:
			cv = uint64(x)
		case uint16:
			cv = uint64(x)
		case uint32:
			cv = uint64(x)
		case uint64:
			cv = x
		case uintptr:
			cv = uint64(x)
		default:
			kk := i.path.concretize(p.idx)
			return p.elems[kk]
		}
		if len(runs) > 0 && runs[len(runs)-1].v == cv {
			runs[len(runs)-1].hi = k
		} else {
			runs = append(runs, run{k, k, cv})
		}
	}
	if len(runs) > 160 {
		kk := i.path.concretize(p.idx)
		return p.elems[kk]
	}
	w := toTerm(p.elems[0]).W
	// most frequent value as default
	cnt := map[uint64]int{}
	for _, r := range runs {
		cnt[r.v] += r.hi - r.lo + 1
	}
	var def uint64
	best := -1
	for v, c := range cnt {
		if c > best || (c == best && v < def) {
			best, def = c, v
		}
	}
	res := smt.Const(w, def)
	iw := p.idx.W
	for k := len(runs) - 1; k >= 0; k-- {
		r := runs[k]
		if r.v == def {
			continue
		}
		var c *smt.Term
		if r.lo == r.hi {
			c = smt.Eq(p.idx, smt.Const(iw, uint64(r.lo)))
		} else {
			c = smt.And(smt.Bin(smt.OpUle, smt.Const(iw, uint64(r.lo)), p.idx), smt.Bin(smt.OpUle, p.idx, smt.Const(iw, uint64(r.hi))))
		}
		res = smt.Ite(c, smt.Const(w, r.v), res)
	}
	return norm(kind, res)
}
