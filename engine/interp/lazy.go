package interp

// Lazily materialised interface values (vrt.Lazy): the generator closure runs
// when the value is first inspected (type assertion/switch, comparison, method
// call, reflection, printing), so code that only moves a value around does not
// fork over its shape.

import "go/token"

type lazyVal struct {
	gen  value
	done bool
	val  iface
}

// forceIface returns the interface value of v, running a lazy generator if needed.
func (i *interpreter) forceIface(fr *frame, v value) iface {
	switch x := v.(type) {
	case iface:
		return x
	case *lazyVal:
		if !x.done {
			r := call(i, fr, token.NoPos, x.gen, nil)
			val := i.forceIface(fr, r)
			i.logUndo(func() { x.done = false; x.val = iface{} })
			x.done = true
			x.val = val
			i.stats.LazyForced++
		}
		return x.val
	}
	panic("forceIface: not an interface value")
}

func isLazy(v value) bool {
	_, ok := v.(*lazyVal)
	return ok
}

func init() {
	externals[vrtPkg+"Lazy"] = func(fr *frame, args []value) value {
		return &lazyVal{gen: args[0]}
	}
	externals[vrtPkg+"Same"] = func(fr *frame, args []value) value {
		a, ok1 := args[0].(*lazyVal)
		b, ok2 := args[1].(*lazyVal)
		return ok1 && ok2 && a == b && !a.done
	}
	externals[vrtPkg+"IsLazy"] = func(fr *frame, args []value) value {
		a, ok := args[0].(*lazyVal)
		return ok && !a.done
	}
}
