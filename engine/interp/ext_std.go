package interp

// Engine-native models of library functions (every one is an environment
// model and is listed in evidence under stubs_used when executed).

import (
	"fmt"
	"go/types"
	"strconv"
	"strings"
	"unicode/utf8"

	"golang.org/x/tools/go/ssa"

	"symgo/smt"
)

func init() {
	for k, v := range map[string]externalFn{
		"fmt.Sprintf":  extFmtSprintf,
		"fmt.Errorf":   extFmtErrorf,
		"fmt.Sprint":   extFmtSprint,
		"fmt.Sprintln": extFmtSprint,
		"fmt.Println":  extFmtNoop,
		"fmt.Printf":   extFmtNoop,
		"fmt.Print":    extFmtNoop,
		"fmt.Fprintf":  extFmtNoop,
		"fmt.Fprintln": extFmtNoop,
		"fmt.Fprint":   extFmtNoop,

		"errors.Is": extErrorsIs,
		"errors.As": extErrorsAs,

		"strings.Replace":    extStringsReplace,
		"strings.ReplaceAll": func(fr *frame, a []value) value { return extStringsReplace(fr, []value{a[0], a[1], a[2], -1}) },
		"strings.HasPrefix":  extStringsHasPrefix,
		"strings.HasSuffix":  extStringsHasSuffix,
		"strings.Index":      extStringsIndex,
		"strings.LastIndex":  extStringsLastIndex,
		"strings.IndexByte":  extStringsIndexByte,
		"strings.Contains":   func(fr *frame, a []value) value { return fr.i.strIndex(a[0], a[1], false) >= 0 },
		"strings.Split":      extStringsSplit,
		"strings.Join":       extStringsJoin,
		"strings.ToLower":    extStringsToLower,
		"strings.Trim":       extStringsTrim,
		"strings.TrimSpace":  func(fr *frame, a []value) value { return fr.i.strTrim(a[0], " \t\n\v\f\r", true) },
		"strings.Cut":        extStringsCut,
		"strings.Count":      extStringsCount,
		"strings.EqualFold":  ext۰strings۰EqualFold,
		"strings.Repeat":     extStringsRepeat,

		"internal/stringslite.Clone": func(fr *frame, a []value) value { return a[0] },
		"strings.Clone":              func(fr *frame, a []value) value { return a[0] },

		"strconv.ParseFloat": extStrconvParseFloat,
		"strconv.Itoa":       extStrconvItoa,
		"strconv.Quote":      extStrconvQuote,

		"regexp.MustCompile":                      extRegexpMustCompile,
		"(*regexp.Regexp).FindStringSubmatch":     extRegexpFindStringSubmatch,
		"(*regexp.Regexp).FindAllStringSubmatch":  extRegexpFindAllStringSubmatch,
		"(*regexp.Regexp).MatchString":            extRegexpMatchString,

		"runtime.FuncForPC":     extRuntimeFuncForPC,
		"(*runtime.Func).Name":  extRuntimeFuncName,
		"runtime/debug.Stack":   func(fr *frame, a []value) value { return []value(nil) },
		"runtime/debug.ReadBuildInfo": func(fr *frame, a []value) value { return tuple{(*value)(nil), false} },

		"(*sync.RWMutex).Lock":    func(fr *frame, a []value) value { fr.i.mutexLock(fr, fr.i.mutexOf(a[0])); return nil },
		"(*sync.RWMutex).Unlock":  func(fr *frame, a []value) value { fr.i.mutexUnlock(fr, fr.i.mutexOf(a[0])); return nil },
		"(*sync.RWMutex).RLock":   func(fr *frame, a []value) value { fr.i.mutexRLock(fr, fr.i.mutexOf(a[0])); return nil },
		"(*sync.RWMutex).RUnlock": func(fr *frame, a []value) value { fr.i.mutexRUnlock(fr, fr.i.mutexOf(a[0])); return nil },
		"(*sync.Mutex).Lock":      func(fr *frame, a []value) value { fr.i.mutexLock(fr, fr.i.mutexOf(a[0])); return nil },
		"(*sync.Mutex).Unlock":    func(fr *frame, a []value) value { fr.i.mutexUnlock(fr, fr.i.mutexOf(a[0])); return nil },

		"os.ReadFile": extOsReadFile,

		"internal/bytealg.IndexByteString": func(fr *frame, a []value) value {
			return extStringsIndexByte(fr, a)
		},
		"internal/bytealg.CountString": func(fr *frame, a []value) value {
			n := 0
			c := a[1]
			for _, b := range strBytes(a[0]) {
				if fr.i.decideEq(nil, b, c) {
					n++
				}
			}
			return n
		},
	} {
		externals[k] = v
	}
}

// ---------------------------------------------------------------- method helpers

// findMethod returns the concrete method named name with the given shape on dynamic type t.
func (i *interpreter) findMethod(t types.Type, name string, nparams int) *ssa.Function {
	if t == nil {
		return nil
	}
	switch t {
	case errorType:
		if name == "Error" {
			return i.errorMethods["Error"]
		}
		return nil
	case rtypeType:
		return nil
	}
	ms := i.prog.MethodSets.MethodSet(t)
	for k := 0; k < ms.Len(); k++ {
		sel := ms.At(k)
		if sel.Obj().Name() != name || !sel.Obj().Exported() && sel.Obj().Pkg() != nil && false {
			continue
		}
		sig := sel.Type().(*types.Signature)
		if sig.Params().Len() != nparams {
			continue
		}
		return i.prog.MethodValue(sel)
	}
	return nil
}

func (i *interpreter) callMethod(fr *frame, itf iface, fn *ssa.Function, args ...value) value {
	all := append([]value{itf.v}, args...)
	return call(i, fr, fn.Pos(), fn, all)
}

// tryErrorString calls Error() on an error value.
func (i *interpreter) tryErrorString(itf iface) (s string, ok bool) {
	fn := i.findMethod(itf.t, "Error", 0)
	if fn == nil {
		return "", false
	}
	defer func() {
		if p := recover(); p != nil {
			if ep, isEng := p.(enginePanic); isEng {
				panic(ep)
			}
			s, ok = "", false
		}
	}()
	r := i.callMethod(&frame{i: i, depth: 1}, itf, fn)
	if rs, isStr := r.(string); isStr {
		return rs, true
	}
	return "<symbolic>", true
}

func (i *interpreter) typeString(t types.Type) string {
	if t == nil {
		return "<nil>"
	}
	return types.TypeString(t, func(p *types.Package) string { return p.Name() })
}

// ---------------------------------------------------------------- fmt

func extFmtNoop(fr *frame, args []value) value {
	return tuple{0, iface{}}
}

// formatOperand renders one operand for verb; returns bytes.
func (i *interpreter) formatOperand(fr *frame, verb byte, flags string, arg value) []value {
	if isLazy(arg) {
		arg = i.forceIface(fr, arg)
	}
	itf, ok := arg.(iface)
	if !ok {
		itf = iface{t: nil, v: arg}
	}
	lit := func(s string) []value { return strBytes(s) }
	if verb == 'T' {
		return lit(i.typeString(itf.t))
	}
	if itf.t == nil {
		if verb == 'v' {
			return lit("<nil>")
		}
		return lit("%!" + string(verb) + "(<nil>)")
	}
	if verb == 'v' || verb == 's' || verb == 'w' || verb == 'q' {
		if flags == "" {
			if fn := i.findMethod(itf.t, "Error", 0); fn != nil && types.Implements(itf.t, errorIface) {
				if p, isPtr := itf.v.(*value); isPtr && p == nil {
					return lit("<nil>")
				}
				r := i.callMethod(fr, itf, fn)
				return i.maybeQuote(verb, r)
			}
			if fn := i.findMethod(itf.t, "String", 0); fn != nil {
				if p, isPtr := itf.v.(*value); isPtr && p == nil {
					if _, isp := itf.t.Underlying().(*types.Pointer); isp {
						// String methods on nil pointers are called by fmt; Position.String handles nil
						r := i.callMethod(fr, itf, fn)
						return i.maybeQuote(verb, r)
					}
				}
				r := i.callMethod(fr, itf, fn)
				return i.maybeQuote(verb, r)
			}
		}
	}
	switch x := itf.v.(type) {
	case string, sstr:
		if verb == 'x' {
			if s, ok := x.(string); ok {
				return lit(fmt.Sprintf("%x", s))
			}
		}
		return i.maybeQuote(verb, x)
	case bool:
		return lit(fmt.Sprintf("%"+flags+string(verb), x))
	case int, int8, int16, int32, int64, uint, uint8, uint16, uint32, uint64, uintptr, float32, float64:
		if verb == 's' {
			return lit(fmt.Sprintf("%%!s(%s=%v)", i.typeString(itf.t), x))
		}
		return lit(fmt.Sprintf("%"+flags+string(verb), x))
	case *smt.Term:
		if x.W == 0 {
			// a symbolic boolean is printed by forking on it
			return lit(fmt.Sprintf("%"+flags+string(verb), i.path.decide(x)))
		}
		if i.path.smallDomain(x, 1<<40) {
			// small finite domain: fork over the values
			u := i.path.concretize(x)
			if b := basicOf(itf.t); b != nil && signedKind(b.Kind()) {
				sh := 64 - uint(x.W)
				return lit(fmt.Sprintf("%"+flags+string(verb), int64(u<<sh)>>sh))
			}
			return lit(fmt.Sprintf("%"+flags+string(verb), u))
		}
		i.path.imprecise++
		return lit("<?>")
	case *value:
		if x == nil {
			return lit("<nil>")
		}
		i.path.imprecise++
		return lit("0xc000000000")
	}
	// composite values: a stable but not byte-exact rendering
	i.path.imprecise++
	return lit(i.renderComposite(fr, itf.t, itf.v, verb))
}

var errorIface = types.Universe.Lookup("error").Type().Underlying().(*types.Interface)

func (i *interpreter) maybeQuote(verb byte, s value) []value {
	if verb == 'q' {
		if cs, ok := s.(string); ok {
			return strBytes(strconv.Quote(cs))
		}
		i.path.imprecise++
		return append(append(strBytes(`"`), strBytes(s)...), strBytes(`"`)...)
	}
	return strBytes(s)
}

// renderComposite approximates fmt's %v for structs, slices and maps.
func (i *interpreter) renderComposite(fr *frame, t types.Type, v value, verb byte) string {
	var sb strings.Builder
	var rec func(t types.Type, v value, depth int)
	rec = func(t types.Type, v value, depth int) {
		if depth > 6 {
			sb.WriteString("...")
			return
		}
		switch x := v.(type) {
		case iface:
			if x.t == nil {
				sb.WriteString("<nil>")
				return
			}
			for _, b := range i.formatOperand(fr, verb, "", x) {
				if c, ok := b.(uint8); ok {
					sb.WriteByte(c)
				} else {
					sb.WriteByte('?')
				}
			}
		case *lazyVal:
			rec(t, i.forceIface(fr, x), depth)
		case structure:
			var st *types.Struct
			if t != nil {
				st, _ = t.Underlying().(*types.Struct)
			}
			sb.WriteByte('{')
			for k := range x {
				if k > 0 {
					sb.WriteByte(' ')
				}
				var ft types.Type
				if st != nil && k < st.NumFields() {
					ft = st.Field(k).Type()
				}
				rec(ft, x[k], depth+1)
			}
			sb.WriteByte('}')
		case []value:
			var et types.Type
			if t != nil {
				if sl, ok := t.Underlying().(*types.Slice); ok {
					et = sl.Elem()
				}
			}
			sb.WriteByte('[')
			for k := range x {
				if k > 0 {
					sb.WriteByte(' ')
				}
				rec(et, x[k], depth+1)
			}
			sb.WriteByte(']')
		case *omap:
			sb.WriteString("map[")
			if x != nil {
				for k := range x.keys {
					if k > 0 {
						sb.WriteByte(' ')
					}
					sb.WriteString(toString(x.keys[k]))
					sb.WriteByte(':')
					rec(nil, x.vals[k], depth+1)
				}
			}
			sb.WriteByte(']')
		case string:
			sb.WriteString(x)
		case *value:
			if x == nil {
				sb.WriteString("<nil>")
			} else {
				sb.WriteString("0xc000000000")
			}
		default:
			sb.WriteString(toString(v))
		}
	}
	rec(t, v, 0)
	return sb.String()
}

// sprintf formats like fmt.Sprintf; returns the bytes and the operands used with %w.
func (i *interpreter) sprintf(fr *frame, format value, args []value) ([]value, []value) {
	f, ok := format.(string)
	if !ok {
		// a format with symbolic bytes: fork over their values
		fs, isS := format.(sstr)
		if !isS {
			unsupported("fmt: format is not a string")
		}
		buf := make([]byte, len(fs.b))
		for k, b := range fs.b {
			if c, conc := b.(uint8); conc {
				buf[k] = c
			} else {
				buf[k] = byte(i.path.concretize(byteTerm(b)))
			}
		}
		f = string(buf)
	}
	var out []value
	var wrapped []value
	argi := 0
	for p := 0; p < len(f); p++ {
		c := f[p]
		if c != '%' {
			out = append(out, c)
			continue
		}
		p++
		if p >= len(f) {
			out = append(out, strBytes("%!(NOVERB)")...)
			break
		}
		start := p
		for p < len(f) && strings.IndexByte("+-# 0123456789.", f[p]) >= 0 {
			p++
		}
		if p >= len(f) {
			out = append(out, strBytes("%!(NOVERB)")...)
			break
		}
		flags := f[start:p]
		verb := f[p]
		if verb == '%' {
			out = append(out, uint8('%'))
			continue
		}
		if argi >= len(args) {
			out = append(out, strBytes("%!"+string(verb)+"(MISSING)")...)
			continue
		}
		arg := args[argi]
		argi++
		if verb == 'w' {
			wrapped = append(wrapped, arg)
		}
		out = append(out, i.formatOperand(fr, verb, flags, arg)...)
	}
	if argi < len(args) {
		out = append(out, strBytes("%!(EXTRA ")...)
		for k := argi; k < len(args); k++ {
			if k > argi {
				out = append(out, strBytes(", ")...)
			}
			out = append(out, i.formatOperand(fr, 'T', "", args[k])...)
			out = append(out, uint8('='))
			out = append(out, i.formatOperand(fr, 'v', "", args[k])...)
		}
		out = append(out, uint8(')'))
	}
	return out, wrapped
}

func extFmtSprintf(fr *frame, args []value) value {
	b, _ := fr.i.sprintf(fr, args[0], args[1].([]value))
	return mkStr(b)
}

func extFmtSprint(fr *frame, args []value) value {
	var out []value
	ops := args[0].([]value)
	prevStr := true
	for k, a := range ops {
		itf := fr.i.forceIface(fr, a)
		_, isStr := itf.v.(string)
		if _, ss := itf.v.(sstr); ss {
			isStr = true
		}
		if k > 0 && !isStr && !prevStr {
			out = append(out, uint8(' '))
		}
		prevStr = isStr
		out = append(out, fr.i.formatOperand(fr, 'v', "", a)...)
	}
	return mkStr(out)
}

func extFmtErrorf(fr *frame, args []value) value {
	i := fr.i
	b, wrapped := i.sprintf(fr, args[0], args[1].([]value))
	msg := mkStr(b)
	fmtPkg := i.prog.ImportedPackage("fmt")
	// only operands that are errors count as wrapped
	var werrs []value
	for _, w := range wrapped {
		if isLazy(w) {
			w = i.forceIface(fr, w)
		}
		if itf, ok := w.(iface); ok && itf.t != nil && types.Implements(itf.t, errorIface) {
			werrs = append(werrs, itf)
		}
	}
	switch len(werrs) {
	case 0:
		en := i.prog.ImportedPackage("errors").Func("New")
		return call(i, fr, en.Pos(), en, []value{msg})
	case 1:
		T := fmtPkg.Type("wrapError").Object().Type()
		var cell value = structure{msg, werrs[0]}
		return iface{t: types.NewPointer(T), v: &cell}
	default:
		T := fmtPkg.Type("wrapErrors").Object().Type()
		var cell value = structure{msg, werrs}
		return iface{t: types.NewPointer(T), v: &cell}
	}
}

// ---------------------------------------------------------------- errors

func extErrorsIs(fr *frame, args []value) value {
	i := fr.i
	err := i.forceIface(fr, args[0])
	target := i.forceIface(fr, args[1])
	if err.t == nil || target.t == nil {
		return err.t == nil && target.t == nil
	}
	comparable := types.Comparable(target.t)
	var is func(e iface, depth int) bool
	is = func(e iface, depth int) bool {
		for depth < 64 {
			depth++
			if comparable && sameType(e.t, target.t) && i.decideEq(e.t, e.v, target.v) {
				return true
			}
			if fn := i.findMethod(e.t, "Is", 1); fn != nil {
				sig := fn.Signature
				if sig.Results().Len() == 1 && types.Identical(sig.Params().At(0).Type(), types.Universe.Lookup("error").Type()) {
					if i.asBool(i.callMethod(fr, e, fn, target)) {
						return true
					}
				}
			}
			fn := i.findMethod(e.t, "Unwrap", 0)
			if fn == nil || fn.Signature.Results().Len() != 1 {
				return false
			}
			r := i.callMethod(fr, e, fn)
			switch r := r.(type) {
			case iface:
				if r.t == nil {
					return false
				}
				e = r
			case []value:
				for _, x := range r {
					if xi := x.(iface); xi.t != nil && is(xi, depth) {
						return true
					}
				}
				return false
			default:
				return false
			}
		}
		return false
	}
	return is(err, 0)
}

// ---------------------------------------------------------------- strings

// matchAtTerm: s[pos:pos+len(pat)] == pat as a term (false when out of range).
func matchAtTerm(s []value, pos int, pat []value) *smt.Term {
	if pos < 0 || pos+len(pat) > len(s) {
		return smt.False
	}
	r := smt.True
	for k := range pat {
		r = smt.And(r, smt.Eq(byteTerm(s[pos+k]), byteTerm(pat[k])))
		if r == smt.False {
			return r
		}
	}
	return r
}

func bothConcrete(a, b value) (string, string, bool) {
	x, ok1 := a.(string)
	y, ok2 := b.(string)
	return x, y, ok1 && ok2
}

func (i *interpreter) strIndex(s, sub value, last bool) int {
	if x, y, ok := bothConcrete(s, sub); ok {
		if last {
			return strings.LastIndex(x, y)
		}
		return strings.Index(x, y)
	}
	sb, pb := strBytes(s), strBytes(sub)
	if last {
		for p := len(sb) - len(pb); p >= 0; p-- {
			if i.path.decide(matchAtTerm(sb, p, pb)) {
				return p
			}
		}
		return -1
	}
	for p := 0; p+len(pb) <= len(sb); p++ {
		if i.path.decide(matchAtTerm(sb, p, pb)) {
			return p
		}
	}
	return -1
}

func extStringsIndex(fr *frame, a []value) value     { return fr.i.strIndex(a[0], a[1], false) }
func extStringsLastIndex(fr *frame, a []value) value { return fr.i.strIndex(a[0], a[1], true) }

func extStringsIndexByte(fr *frame, a []value) value {
	for p, b := range strBytes(a[0]) {
		if fr.i.decideEq(nil, b, a[1]) {
			return p
		}
	}
	return -1
}

func extStringsHasPrefix(fr *frame, a []value) value {
	if x, y, ok := bothConcrete(a[0], a[1]); ok {
		return strings.HasPrefix(x, y)
	}
	return norm(types.Bool, matchAtTerm(strBytes(a[0]), 0, strBytes(a[1])))
}

func extStringsHasSuffix(fr *frame, a []value) value {
	if x, y, ok := bothConcrete(a[0], a[1]); ok {
		return strings.HasSuffix(x, y)
	}
	s, p := strBytes(a[0]), strBytes(a[1])
	return norm(types.Bool, matchAtTerm(s, len(s)-len(p), p))
}

func extStringsReplace(fr *frame, a []value) value {
	i := fr.i
	n := int(i.concInt(a[3], true))
	if x, ok := a[0].(string); ok {
		if o, nw, ok2 := bothConcrete(a[1], a[2]); ok2 {
			return strings.Replace(x, o, nw, n)
		}
	}
	s, old, nw := strBytes(a[0]), strBytes(a[1]), strBytes(a[2])
	if len(old) == 0 {
		unsupported("strings.Replace with empty old on a symbolic string")
	}
	var out []value
	for p := 0; p < len(s); {
		if n != 0 && p+len(old) <= len(s) && i.path.decide(matchAtTerm(s, p, old)) {
			out = append(out, nw...)
			p += len(old)
			if n > 0 {
				n--
			}
			continue
		}
		out = append(out, s[p])
		p++
	}
	return mkStr(out)
}

func extStringsCount(fr *frame, a []value) value {
	if x, y, ok := bothConcrete(a[0], a[1]); ok {
		return strings.Count(x, y)
	}
	s, sub := strBytes(a[0]), strBytes(a[1])
	if len(sub) == 0 {
		unsupported("strings.Count with empty separator on a symbolic string")
	}
	n := 0
	for p := 0; p+len(sub) <= len(s); {
		if fr.i.path.decide(matchAtTerm(s, p, sub)) {
			n++
			p += len(sub)
		} else {
			p++
		}
	}
	return n
}

func extStringsSplit(fr *frame, a []value) value {
	i := fr.i
	if x, y, ok := bothConcrete(a[0], a[1]); ok {
		parts := strings.Split(x, y)
		out := make([]value, len(parts))
		for k, p := range parts {
			out[k] = p
		}
		return out
	}
	s, sep := strBytes(a[0]), strBytes(a[1])
	var out []value
	if len(sep) == 0 {
		// explode into UTF-8 sequences
		for p := 0; p < len(s); {
			_, w := i.decodeRuneAt(s, p)
			if w == 1 {
				if _, conc := s[p].(uint8); !conc {
					// invalid bytes become U+FFFD in strings.Split(s, "")
					if i.path.decide(smt.Bin(smt.OpUle, smt.Const(8, 0x80), byteTerm(s[p]))) {
						out = append(out, string(utf8.RuneError))
						p++
						continue
					}
				} else if s[p].(uint8) >= 0x80 {
					out = append(out, string(utf8.RuneError))
					p++
					continue
				}
			}
			out = append(out, mkStr(s[p:p+w]))
			p += w
		}
		return out
	}
	start := 0
	for p := 0; p+len(sep) <= len(s); {
		if i.path.decide(matchAtTerm(s, p, sep)) {
			out = append(out, mkStr(s[start:p]))
			p += len(sep)
			start = p
		} else {
			p++
		}
	}
	out = append(out, mkStr(s[start:]))
	return out
}

func extStringsJoin(fr *frame, a []value) value {
	elems := a[0].([]value)
	sep := strBytes(a[1])
	var out []value
	for k, e := range elems {
		if k > 0 {
			out = append(out, sep...)
		}
		out = append(out, strBytes(e)...)
	}
	return mkStr(out)
}

func extStringsToLower(fr *frame, a []value) value {
	if s, ok := a[0].(string); ok {
		return strings.ToLower(s)
	}
	unsupported("strings.ToLower on a symbolic string")
	return nil
}

func extStringsRepeat(fr *frame, a []value) value {
	n := int(fr.i.concInt(a[1], true))
	if n < 0 {
		panic(targetPanic{iface{fr.i.runtimeErrorString, "strings: negative Repeat count"}})
	}
	var out []value
	b := strBytes(a[0])
	for k := 0; k < n; k++ {
		out = append(out, b...)
	}
	return mkStr(out)
}

// strTrim trims ASCII cutset bytes from both ends.
func (i *interpreter) strTrim(s value, cutset string, ascii bool) value {
	if cs, ok := s.(string); ok {
		return strings.Trim(cs, cutset)
	}
	for k := 0; k < len(cutset); k++ {
		if cutset[k] >= 0x80 {
			unsupported("strings.Trim with non-ASCII cutset on symbolic string")
		}
	}
	b := strBytes(s)
	inSet := func(x value) bool {
		c := smt.False
		for k := 0; k < len(cutset); k++ {
			c = smt.Or(c, smt.Eq(byteTerm(x), smt.Const(8, uint64(cutset[k]))))
		}
		return i.path.decide(c)
	}
	lo, hi := 0, len(b)
	for lo < hi && inSet(b[lo]) {
		lo++
	}
	for hi > lo && inSet(b[hi-1]) {
		hi--
	}
	return mkStr(b[lo:hi])
}

func extStringsTrim(fr *frame, a []value) value {
	cs, ok := a[1].(string)
	if !ok {
		unsupported("strings.Trim with symbolic cutset")
	}
	return fr.i.strTrim(a[0], cs, true)
}

func extStringsCut(fr *frame, a []value) value {
	p := fr.i.strIndex(a[0], a[1], false)
	if p < 0 {
		return tuple{a[0], "", false}
	}
	b := strBytes(a[0])
	return tuple{mkStr(b[:p]), mkStr(b[p+strLen(a[1]):]), true}
}

// ---------------------------------------------------------------- strconv

func extStrconvParseFloat(fr *frame, a []value) value {
	i := fr.i
	if s, ok := a[0].(string); ok {
		f, err := strconv.ParseFloat(s, int(a[1].(int)))
		if err != nil {
			en := i.prog.ImportedPackage("errors").Func("New")
			return tuple{f, call(i, fr, en.Pos(), en, []value{err.Error()})}
		}
		return tuple{f, iface{}}
	}
	// symbolic text: the result is an arbitrary (value, error) pair
	i.path.imprecise++
	if i.path.chooseIndex(2) == 0 {
		return tuple{float64(1.5), iface{}}
	}
	en := i.prog.ImportedPackage("errors").Func("New")
	return tuple{float64(0), call(i, fr, en.Pos(), en, []value{"strconv.ParseFloat: parsing: invalid syntax"})}
}

func extStrconvItoa(fr *frame, a []value) value {
	if t, ok := a[0].(*smt.Term); ok {
		return strconv.Itoa(int(fr.i.path.concretize(t)))
	}
	return strconv.Itoa(a[0].(int))
}

func extStrconvQuote(fr *frame, a []value) value {
	if s, ok := a[0].(string); ok {
		return strconv.Quote(s)
	}
	unsupported("strconv.Quote on symbolic string")
	return nil
}

// ---------------------------------------------------------------- runtime

type funcInfo struct{ fn *ssa.Function }

func extRuntimeFuncForPC(fr *frame, a []value) value {
	pc := a[0].(uintptr)
	fn := fr.i.funcIDs[pc]
	if fn == nil {
		return (*value)(nil)
	}
	var cell value = funcInfo{fn}
	return &cell
}

// gcFuncName renders the symbol name the gc toolchain gives fn.
func gcFuncName(fn *ssa.Function) string {
	// anonymous functions: Outer$1$2 -> Outer.func1.2
	root := fn
	var idx []string
	for root.Parent() != nil {
		name := root.Name()
		k := strings.LastIndexByte(name, '$')
		idx = append([]string{name[k+1:]}, idx...)
		root = root.Parent()
	}
	base := root.Name()
	pkg := ""
	if root.Pkg != nil {
		pkg = root.Pkg.Pkg.Path()
	}
	if recv := root.Signature.Recv(); recv != nil {
		rt := recv.Type()
		if p, ok := rt.(*types.Pointer); ok {
			base = "(*" + p.Elem().(*types.Named).Obj().Name() + ")." + base
		} else if n, ok := rt.(*types.Named); ok {
			base = n.Obj().Name() + "." + base
		}
	}
	name := pkg + "." + base
	for k, ix := range idx {
		if k == 0 {
			name += ".func" + ix
		} else {
			name += "." + ix
		}
	}
	return name
}

func extRuntimeFuncName(fr *frame, a []value) value {
	p := a[0].(*value)
	if p == nil {
		return ""
	}
	return gcFuncName((*p).(funcInfo).fn)
}

// ---------------------------------------------------------------- os

func extOsReadFile(fr *frame, a []value) value {
	i := fr.i
	name, ok := a[0].(string)
	if !ok {
		unsupported("os.ReadFile with symbolic name")
	}
	if s, ok := i.files[name]; ok {
		return tuple{strBytes(s), iface{}}
	}
	en := i.prog.ImportedPackage("errors").Func("New")
	return tuple{[]value(nil), call(i, fr, en.Pos(), en, []value{"open " + name + ": no such file or directory"})}
}

// extErrorsAs models errors.As: the first error in err's chain (Unwrap, single or multiple) that is
// assignable to the type target points to is stored there.  (As methods are not consulted: none in reach.)
func extErrorsAs(fr *frame, args []value) value {
	i := fr.i
	err := i.forceIface(fr, args[0])
	target := i.forceIface(fr, args[1])
	if target.t == nil {
		panic(targetPanic{iface{i.runtimeErrorString, "errors: target cannot be nil"}})
	}
	pt, ok := target.t.Underlying().(*types.Pointer)
	p, okp := target.v.(*value)
	if !ok || !okp || p == nil {
		panic(targetPanic{iface{i.runtimeErrorString, "errors: target must be a non-nil pointer"}})
	}
	elem := pt.Elem()
	var as func(e iface, depth int) bool
	as = func(e iface, depth int) bool {
		for depth < 64 && e.t != nil {
			depth++
			if types.AssignableTo(e.t, elem) {
				i.logAddr(p)
				if types.IsInterface(elem) {
					*p = e
				} else {
					*p = e.v
				}
				return true
			}
			fn := i.findMethod(e.t, "Unwrap", 0)
			if fn == nil || fn.Signature.Results().Len() != 1 {
				return false
			}
			switch r := i.callMethod(fr, e, fn).(type) {
			case iface:
				e = r
			case []value:
				for _, x := range r {
					if xi, ok := x.(iface); ok && xi.t != nil && as(xi, depth) {
						return true
					}
				}
				return false
			default:
				return false
			}
		}
		return false
	}
	return as(err, 0)
}
