package interp

// Harness primitives (package vrt of the harness module), intercepted by name.

import (
	"fmt"
	"go/types"
	"strings"

	"symgo/smt"
)

const vrtPkg = "verif.example/h/vrt."

func init() {
	for k, v := range map[string]externalFn{
		vrtPkg + "Int":        extVrtInt,
		vrtPkg + "IntRange":   extVrtIntRange,
		vrtPkg + "Bool":       extVrtBool,
		vrtPkg + "Byte":       extVrtByte,
		vrtPkg + "Choice":     extVrtChoice,
		vrtPkg + "ByteIn":     extVrtByteIn,
		vrtPkg + "Assume":     extVrtAssume,
		vrtPkg + "Assert":     extVrtAssert,
		vrtPkg + "Reach":      extVrtReach,
		vrtPkg + "Observe":    extVrtObserve,
		vrtPkg + "StackDepth": extVrtStackDepth,
		vrtPkg + "Param":      extVrtParam,
		vrtPkg + "Stop":       extVrtStop,
		vrtPkg + "Symbolic":   func(fr *frame, args []value) value { return true },
		vrtPkg + "Concrete":   extVrtConcrete,
		vrtPkg + "SetFile":    extVrtSetFile,
		vrtPkg + "Steps":      func(fr *frame, args []value) value { return int(fr.i.path.steps) },
		vrtPkg + "Now":        func(fr *frame, args []value) value { return fr.i.vclock },
		vrtPkg + "ThreadID":   func(fr *frame, args []value) value { return fr.i.sched.cur.id },
		vrtPkg + "Yield":      func(fr *frame, args []value) value { fr.i.schedPoint(fr, "yield"); return nil },
		vrtPkg + "And": func(fr *frame, args []value) value {
			return norm(types.Bool, smt.And(toTerm(args[0]), toTerm(args[1])))
		},
		vrtPkg + "Or": func(fr *frame, args []value) value {
			return norm(types.Bool, smt.Or(toTerm(args[0]), toTerm(args[1])))
		},
		vrtPkg + "Not": func(fr *frame, args []value) value {
			return norm(types.Bool, smt.Not(toTerm(args[0])))
		},
		vrtPkg + "EqInt": func(fr *frame, args []value) value {
			return norm(types.Bool, smt.Eq(toTerm(args[0]), toTerm(args[1])))
		},
		vrtPkg + "IteInt": func(fr *frame, args []value) value {
			return norm(types.Int, smt.Ite(toTerm(args[0]), toTerm(args[1]), toTerm(args[2])))
		},
		vrtPkg + "Tick": func(fr *frame, args []value) value {
			i := fr.i
			old := i.tick
			i.logUndo(func() { i.tick = old })
			i.tick++
			return i.tick
		},
	} {
		externals[k] = v
	}
}

func tagOf(v value) string {
	s, ok := v.(string)
	if !ok {
		unsupported("vrt: tag must be a concrete string")
	}
	return s
}

func siteOf(fr *frame) string {
	if fr.caller != nil && fr.caller.fn != nil {
		return fr.caller.fn.String()
	}
	return ""
}

func extVrtInt(fr *frame, args []value) value {
	return fr.i.path.newVar(tagOf(args[0]), 64)
}

func extVrtIntRange(fr *frame, args []value) value {
	p := fr.i.path
	lo, hi := int64(args[1].(int)), int64(args[2].(int))
	if lo == hi {
		return int(lo)
	}
	c := func(v *smt.Term) *smt.Term {
		return smt.And(smt.Bin(smt.OpSle, smt.Const(64, uint64(lo)), v), smt.Bin(smt.OpSle, v, smt.Const(64, uint64(hi))))
	}
	if hi > lo && hi-lo < fdCap {
		dom := make([]uint64, 0, hi-lo+1)
		for x := lo; x <= hi; x++ {
			dom = append(dom, uint64(x))
		}
		return p.newDomVar(tagOf(args[0]), 64, dom, c)
	}
	v := p.newVar(tagOf(args[0]), 64)
	p.assume(c(v))
	return v
}

func extVrtBool(fr *frame, args []value) value {
	return fr.i.path.newVar(tagOf(args[0]), 0)
}

func extVrtByte(fr *frame, args []value) value {
	return fr.i.path.newVar(tagOf(args[0]), 8)
}

// ByteIn(tag, alphabet) is a symbolic byte constrained to the alphabet (no fork).
func extVrtByteIn(fr *frame, args []value) value {
	p := fr.i.path
	alpha, ok := args[1].(string)
	if !ok || len(alpha) == 0 {
		unsupported("vrt.ByteIn needs a concrete non-empty alphabet")
	}
	if len(alpha) == 1 {
		return alpha[0]
	}
	dom := make([]uint64, 0, len(alpha))
	seen := map[byte]bool{}
	for k := 0; k < len(alpha); k++ {
		if !seen[alpha[k]] {
			seen[alpha[k]] = true
			dom = append(dom, uint64(alpha[k]))
		}
	}
	return p.newDomVar(tagOf(args[0]), 8, dom, func(v *smt.Term) *smt.Term {
		c := smt.False
		for _, x := range dom {
			c = smt.Or(c, smt.Eq(v, smt.Const(8, x)))
		}
		return c
	})
}

// newDomVar creates a variable with an explicit finite domain; the domain
// constraint goes to the solver's path condition, the domain itself to the
// finite-domain state.
func (p *pathCtx) newDomVar(tag string, w uint8, dom []uint64, cons func(*smt.Term) *smt.Term) *smt.Term {
	_, existed := p.vars[strings.NewReplacer("|", "!", "\\", "!", " ", "_").Replace(tag)]
	v := p.newVarDom(tag, w, dom)
	if !existed {
		p.addDomainPC(cons(v))
		// keep the model inside the domain
		in := false
		cur := p.model[v.Name]
		for _, d := range dom {
			if d == cur {
				in = true
				break
			}
		}
		if !in {
			p.model[v.Name] = dom[0]
			p.memo = map[*smt.Term]uint64{}
		}
	}
	return v
}

func extVrtChoice(fr *frame, args []value) value {
	p := fr.i.path
	n := int64(args[1].(int))
	if n <= 1 {
		return 0
	}
	c := func(v *smt.Term) *smt.Term { return smt.Bin(smt.OpUlt, v, smt.Const(64, uint64(n))) }
	if n <= fdCap {
		dom := make([]uint64, n)
		for k := range dom {
			dom[k] = uint64(k)
		}
		return p.newDomVar(tagOf(args[0]), 64, dom, c)
	}
	v := p.newVar(tagOf(args[0]), 64)
	p.assume(c(v))
	return v
}

func extVrtAssume(fr *frame, args []value) value {
	fr.i.path.assume(toTerm(args[0]))
	return nil
}

func extVrtAssert(fr *frame, args []value) value {
	msg, _ := args[1].(string)
	if s, ok := args[1].(sstr); ok {
		msg = fmt.Sprintf("<symbolic message len %d>", len(s.b))
	}
	fr.i.path.check(toTerm(args[0]), msg, siteOf(fr))
	return nil
}

func extVrtReach(fr *frame, args []value) value {
	l := tagOf(args[0])
	fr.i.path.reached[l] = true
	if l == "end" && fr.i.cfg.Params["__twin"] == 1 {
		// vacuity twin: the end of the harness must be reachable
		fr.i.path.check(smt.False, "twin: end reached", siteOf(fr))
	}
	return nil
}

func extVrtObserve(fr *frame, args []value) value {
	p := fr.i.path
	p.obs = append(p.obs, obsEntry{tagOf(args[0]), args[1]})
	return nil
}

func extVrtStackDepth(fr *frame, args []value) value {
	return fr.depth
}

func extVrtParam(fr *frame, args []value) value {
	name := tagOf(args[0])
	if v, ok := fr.i.cfg.Params[name]; ok {
		return int(v)
	}
	return args[1]
}

func extVrtStop(fr *frame, args []value) value {
	panic(abortDone{})
}

// Concrete(x) forks over every feasible value of x.
func extVrtConcrete(fr *frame, args []value) value {
	if t, ok := args[0].(*smt.Term); ok {
		return int(fr.i.path.concretize(t))
	}
	return args[0]
}

func extVrtSetFile(fr *frame, args []value) value {
	i := fr.i
	name := tagOf(args[0])
	old, had := i.files[name]
	i.logUndo(func() {
		if had {
			i.files[name] = old
		} else {
			delete(i.files, name)
		}
	})
	i.files[name] = args[1]
	return nil
}

// describeUnder renders a value the way vrt.Observe prints it natively,
// symbolic parts evaluated under the model.
func describeUnder(v value, model map[string]uint64, memo map[*smt.Term]uint64) string {
	switch x := v.(type) {
	case iface:
		if x.t == nil {
			return "nil"
		}
		if b := basicOf(x.t); b != nil {
			if t, ok := x.v.(*smt.Term); ok {
				u := smt.Eval(t, model, memo)
				if b.Kind() == types.Bool {
					return fmt.Sprint(u != 0)
				}
				if signedKind(b.Kind()) {
					sh := 64 - uint(t.W)
					return fmt.Sprint(int64(u<<sh) >> sh)
				}
				return fmt.Sprint(u)
			}
		}
		return describeUnder(x.v, model, memo)
	case *smt.Term:
		u := smt.Eval(x, model, memo)
		if x.W == 0 {
			return fmt.Sprint(u != 0)
		}
		sh := 64 - uint(x.W)
		return fmt.Sprint(int64(u<<sh) >> sh)
	case sstr:
		var sb strings.Builder
		for _, b := range x.b {
			sb.WriteByte(byte(smt.Eval(byteTerm(b), model, memo)))
		}
		return fmt.Sprintf("%q", sb.String())
	case string:
		return fmt.Sprintf("%q", x)
	case bool, int, int8, int16, int32, int64, uint, uint8, uint16, uint32, uint64:
		return fmt.Sprint(x)
	}
	return toString(v)
}

var _ = types.Int
