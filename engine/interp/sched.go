package interp

// Threads, schedules, channels, mutexes, happens-before race detection.
//
// Engine threads are host goroutines that pass a baton, so exactly one runs.
// Scheduling points: operations on mutexes and channels, select, go, thread
// exit, and plain accesses to locations already touched by two threads.  The
// thread to run next is a symbolic choice (pathCtx.chooseIndex) bounded by a
// preemption budget.  For data-race-free programs interleaving at
// synchronisation operations is sufficient (DRF-SC); races themselves are
// found by the vector-clock detector below on every explored schedule.

import (
	"fmt"
	"go/token"
	"go/types"
	"os"
	"path/filepath"
	"sort"
	"strconv"
	"strings"
	"sync"

	"golang.org/x/tools/go/ssa"

	"symgo/smt"
)

type vclock []int

func (a vclock) leq(b vclock) bool {
	for k, v := range a {
		if v != 0 && (k >= len(b) || v > b[k]) {
			return false
		}
	}
	return true
}

func (a vclock) join(b vclock) vclock {
	if len(b) > len(a) {
		a = append(a, make(vclock, len(b)-len(a))...)
	}
	for k, v := range b {
		if v > a[k] {
			a[k] = v
		}
	}
	return a
}

func (a vclock) clone() vclock { return append(vclock(nil), a...) }

type thread struct {
	id      int
	wake    chan struct{}
	fin     chan struct{}
	done    bool
	killed  bool
	waiting func() bool
	desc    string
	vc      vclock
	name    string
	frame   *frame // innermost active frame
	sinceSwitch int
}

const fairnessWindow = 40

type accessRec struct {
	wThread int
	wClock  int
	wSite   string
	reads   vclock   // per-thread last read clock
	rSites  []string // per-thread last read site
	threads int      // bitmask of threads that touched it
	racy    bool     // a race was reported on this location
}

type scheduler struct {
	threads     []*thread
	cur         *thread
	preemptions int
	abort       interface{}
	acc         map[interface{}]*accessRec
	timers      []*timerModel
	atomics     map[*value]vclock
}

func (i *interpreter) resetSched() {
	i.syncUses = map[interface{}]*syncUse{}
	main := &thread{id: 0, wake: make(chan struct{}), vc: vclock{1}, name: "main"}
	i.sched = &scheduler{threads: []*thread{main}, cur: main, acc: map[interface{}]*accessRec{}, atomics: map[*value]vclock{}}
	i.vclock = int64(1_700_000_000_000_000_000) // virtual wall clock: some date in 2023
}

func (i *interpreter) curFrame() *frame {
	if i.sched != nil && i.sched.cur != nil && i.sched.cur.frame != nil {
		return i.sched.cur.frame
	}
	return &frame{i: i, depth: 1}
}

func (s *scheduler) multi() bool { return len(s.threads) > 1 }

func (s *scheduler) live() int {
	n := 0
	for _, t := range s.threads {
		if !t.done {
			n++
		}
	}
	return n
}

func (t *thread) enabled() bool {
	if t.done {
		return false
	}
	return t.waiting == nil || t.waiting()
}

// spawn implements the go statement.
func (i *interpreter) spawn(fr *frame, pos token.Pos, fn value, args []value) {
	s := i.sched
	if len(s.threads) >= i.cfg.MaxThreads {
		unsupported("more than %d threads", i.cfg.MaxThreads)
	}
	t := &thread{id: len(s.threads), wake: make(chan struct{}), fin: make(chan struct{})}
	cur := s.cur
	// happens-before: everything before go is visible to the new thread
	t.vc = cur.vc.clone()
	for len(t.vc) <= t.id {
		t.vc = append(t.vc, 0)
	}
	t.vc[t.id] = 1
	cur.vc[cur.id]++
	s.threads = append(s.threads, t)
	go func() {
		defer close(t.fin)
		<-t.wake
		defer func() {
			p := recover()
			t.done = true
			if p != nil {
				if _, ok := p.(abortKilled); ok {
					return
				}
				if s.abort == nil {
					if ep, ok := p.(enginePanic); ok {
						s.abort = ep
					} else {
						s.abort = threadPanic{p}
					}
				}
				// give the baton to main so that it aborts the path
				main := s.threads[0]
				s.cur = main
				main.wake <- struct{}{}
				return
			}
			// normal exit: schedule someone else
			i.threadExit(t)
		}()
		if t.killed {
			panic(abortKilled{})
		}
		root := &frame{i: i, thr: t, depth: 0}
		call(i, root, pos, fn, args)
	}()
	i.schedPoint(fr, "go")
}

type threadPanic struct{ v interface{} }

// A panic that ends a goroutine other than main kills the process: no recover() of
// another thread can see it, so it travels through main's frames as an engine abort.
func (threadPanic) engineAbort() string { return "goroutine panic" }

// resume is executed by a thread when it receives the baton.
func (i *interpreter) resume(t *thread) {
	if t.id == 0 {
		if a := i.sched.abort; a != nil {
			panic(a)
		}
	} else if t.killed {
		panic(abortKilled{})
	}
}

// switchTo hands the baton from the current thread to t and waits.
func (i *interpreter) switchTo(t *thread) {
	s := i.sched
	prev := s.cur
	if prev == t {
		return
	}
	s.cur = t
	t.wake <- struct{}{}
	<-prev.wake
	i.resume(prev)
}

func (i *interpreter) threadExit(t *thread) {
	s := i.sched
	var en []*thread
	for _, o := range s.threads {
		if o != t && o.enabled() {
			en = append(en, o)
		}
	}
	if len(en) == 0 {
		if i.advanceClock() {
			i.threadExit(t)
			return
		}
		// everyone else is blocked: deadlock, reported from main
		if s.abort == nil {
			s.abort = abortDeadlock{i.describeBlocked()}
		}
		main := s.threads[0]
		s.cur = main
		main.wake <- struct{}{}
		return
	}
	k := 0
	if len(en) > 1 {
		k = i.path.chooseIndex(len(en))
	}
	s.cur = en[k]
	en[k].wake <- struct{}{}
}

type abortDeadlock struct{ what string }

func (a abortDeadlock) engineAbort() string { return "deadlock: " + a.what }

func (i *interpreter) describeBlocked() string {
	out := ""
	for _, t := range i.sched.threads {
		if !t.done {
			out += fmt.Sprintf("[thread %d blocked on %s] ", t.id, t.desc)
		}
	}
	return out
}

// schedPoint lets the scheduler (i.e. the explorer) preempt the current thread.
func (i *interpreter) schedPoint(fr *frame, why string) {
	s := i.sched
	if s == nil || !s.multi() || s.live() < 2 {
		return
	}
	cur := s.cur
	var en []*thread
	en = append(en, cur)
	for _, o := range s.threads {
		if o != cur && o.enabled() {
			en = append(en, o)
		}
	}
	if len(en) == 1 {
		return
	}
	if schedStat != nil {
		schedStatMu.Lock()
		schedStat[why+" @"+repoSite(fr)]++
		schedStatMu.Unlock()
	}
	// fairness: Go's scheduler is preemptive, so a thread cannot run for ever
	// while another one is enabled.  After many scheduling points without a
	// switch the next enabled thread is run (not a decision, not a preemption).
	cur.sinceSwitch++
	if i.cfg.ProbeMode {
		// hot-site probe: no forking, the threads take turns every few scheduling points
		if cur.sinceSwitch >= 5 {
			cur.sinceSwitch = 0
			i.switchTo(en[1])
		}
		return
	}
	if cur.sinceSwitch > fairnessWindow {
		cur.sinceSwitch = 0
		i.switchTo(en[1])
		return
	}
	if s.preemptions >= i.cfg.MaxPreemptions {
		return
	}
	k := i.path.chooseIndex(len(en))
	if k != 0 {
		s.preemptions++
		cur.sinceSwitch = 0
		if site := repoSite(fr); site != "" {
			i.path.preempts = append(i.path.preempts, site)
		}
		i.switchTo(en[k])
	}
}

// RepoModule is the import path prefix of the code under test.
var RepoModule = "github.com/jig/lisp"

// repoSite names the innermost statement of the code under test that the
// thread of fr is executing: "dir/file.go:line" relative to the module root.
func repoSite(fr *frame) string {
	for ; fr != nil; fr = fr.caller {
		if fr.fn == nil || fr.fn.Pkg == nil || fr.cur == nil {
			continue
		}
		pp := fr.fn.Pkg.Pkg.Path()
		if pp != RepoModule && !strings.HasPrefix(pp, RepoModule+"/") {
			continue
		}
		pos := fr.cur.Pos()
		if !pos.IsValid() {
			continue
		}
		ps := fr.i.prog.Fset.Position(pos)
		rel := strings.TrimPrefix(strings.TrimPrefix(pp, RepoModule), "/")
		if rel != "" {
			rel += "/"
		}
		return rel + filepath.Base(ps.Filename) + ":" + strconv.Itoa(ps.Line)
	}
	return ""
}

// block suspends the current thread until cond holds.
func (i *interpreter) block(fr *frame, cond func() bool, desc string) {
	s := i.sched
	cur := s.cur
	for !cond() {
		cur.waiting = cond
		cur.desc = desc
		var en []*thread
		for _, o := range s.threads {
			if o != cur && o.enabled() {
				en = append(en, o)
			}
		}
		if len(en) == 0 {
			if i.advanceClock() {
				continue
			}
			what := i.describeBlocked()
			cur.waiting = nil
			// in a non-main thread the goroutine's exit handler hands the abort to main
			panic(abortDeadlock{what})
		}
		k := 0
		if len(en) > 1 {
			k = i.path.chooseIndex(len(en))
		}
		i.switchTo(en[k])
	}
	cur.waiting = nil
	cur.desc = ""
}

// killThreads terminates every non-main thread at the end of a path.
func (i *interpreter) killThreads() {
	s := i.sched
	if s == nil {
		return
	}
	for _, t := range s.threads[1:] {
		if !t.done {
			t.killed = true
			t.wake <- struct{}{}
		}
		<-t.fin
	}
}

// ---------------------------------------------------------------- happens-before

func (i *interpreter) acquire(vc vclock) {
	cur := i.sched.cur
	cur.vc = cur.vc.join(vc)
}

func (i *interpreter) release(into *vclock) {
	cur := i.sched.cur
	*into = (*into).join(cur.vc)
	cur.vc[cur.id]++
}

// sharedAccess is called for every load/store/map operation while more than
// one thread exists.
func (i *interpreter) sharedAccess(fr *frame, loc interface{}, write bool) {
	s := i.sched
	if s == nil || !s.multi() {
		return
	}
	cur := s.cur
	rec := s.acc[loc]
	if rec == nil {
		rec = &accessRec{wThread: -1}
		s.acc[loc] = rec
	}
	bit := 1 << uint(cur.id)
	if rec.racy && fr != nil {
		// a race was already observed on this location on this path: interleave
		// at its accesses too (race-free locations need no preemption: DRF-SC)
		i.schedPoint(fr, "racy")
	}
	rec.threads |= bit
	site := ""
	if fr != nil && fr.fn != nil {
		site = fr.fn.String()
	}
	clk := func(t int) int {
		if t < len(cur.vc) {
			return cur.vc[t]
		}
		return 0
	}
	if rec.wThread >= 0 && rec.wThread != cur.id && rec.wClock > clk(rec.wThread) {
		rec.racy = true
		i.reportRace(loc, rec.wSite, site, true, write)
	}
	if write {
		for t, c := range rec.reads {
			if t != cur.id && c > clk(t) {
				rs := ""
				if t < len(rec.rSites) {
					rs = rec.rSites[t]
				}
				rec.racy = true
				i.reportRace(loc, rs, site, false, true)
			}
		}
		rec.wThread, rec.wClock, rec.wSite = cur.id, cur.vc[cur.id], site
	} else {
		for len(rec.reads) <= cur.id {
			rec.reads = append(rec.reads, 0)
			rec.rSites = append(rec.rSites, "")
		}
		rec.reads[cur.id] = cur.vc[cur.id]
		rec.rSites[cur.id] = site
	}
}

func (i *interpreter) reportRace(loc interface{}, prevSite, site string, prevWrite, write bool) {
	k := func(w bool) string {
		if w {
			return "write"
		}
		return "read"
	}
	a, b := prevSite, site
	if a > b {
		a, b = b, a
	}
	msg := fmt.Sprintf("data race: %s in %s / %s in %s", k(prevWrite), prevSite, k(write), site)
	i.path.violation("race", msg, a+"|"+b, i.path.model)
}

// ---------------------------------------------------------------- channels

type chanModel struct {
	buf      []value
	capacity int
	closed   bool
	vc       vclock
}

func newChan(capacity int) *chanModel { return &chanModel{capacity: capacity} }

func (i *interpreter) chanSend(fr *frame, c *chanModel, v value) {
	if c == nil {
		i.block(fr, func() bool { return false }, "send on nil channel")
	}
	if c.capacity == 0 {
		unsupported("send on unbuffered channel")
	}
	i.syncWrite(c)
	i.schedPoint(fr, "send")
	if c.closed {
		panic(runtimeError("send on closed channel"))
	}
	i.block(fr, func() bool { return c.closed || len(c.buf) < c.capacity }, "channel send")
	if c.closed {
		panic(runtimeError("send on closed channel"))
	}
	i.chanPut(c, v)
}

func (i *interpreter) chanPut(c *chanModel, v value) {
	old := c.buf
	oldvc := c.vc
	i.logUndo(func() { c.buf = old; c.vc = oldvc })
	c.buf = append(append([]value(nil), c.buf...), v)
	c.vc = c.vc.clone()
	i.release(&c.vc)
}

func (i *interpreter) chanTake(c *chanModel) value {
	old := c.buf
	i.logUndo(func() { c.buf = old })
	v := c.buf[0]
	c.buf = append([]value(nil), c.buf[1:]...)
	i.acquire(c.vc)
	return v
}

func (i *interpreter) chanRecv(fr *frame, c *chanModel) (value, bool) {
	if c == nil {
		i.block(fr, func() bool { return false }, "receive from nil channel")
	}
	i.syncWrite(c)
	i.schedPoint(fr, "recv")
	i.block(fr, func() bool { return c.closed || len(c.buf) > 0 }, "channel receive")
	if len(c.buf) > 0 {
		return i.chanTake(c), true
	}
	i.acquire(c.vc)
	return nil, false
}

func (i *interpreter) chanClose(fr *frame, c *chanModel) {
	if c == nil {
		panic(runtimeError("close of nil channel"))
	}
	if c.closed {
		panic(runtimeError("close of closed channel"))
	}
	i.syncWrite(c)
	i.schedPoint(fr, "close")
	oldvc := c.vc
	i.logUndo(func() { c.closed = false; c.vc = oldvc })
	c.closed = true
	c.vc = c.vc.clone()
	i.release(&c.vc)
}

// doSelect implements ssa.Select on the channel model.
func (i *interpreter) doSelect(fr *frame, instr *ssa.Select) value {
	type st struct {
		c    *chanModel
		send bool
		v    value
	}
	states := make([]st, len(instr.States))
	for k, s := range instr.States {
		states[k] = st{c: fr.get(s.Chan).(*chanModel), send: s.Dir == types.SendOnly}
		if s.Send != nil {
			states[k].v = fr.get(s.Send)
		}
	}
	// a non-blocking select that only polls channels for reception reads their state; a select on nil
	// channels only touches nothing: both are scheduling points only where they can interact (see syncRead)
	poll := !instr.Blocking
	need := false
	for _, st := range states {
		if st.c == nil {
			continue
		}
		if poll && !st.send {
			if i.syncRead(fr, st.c, "poll") {
				need = true
			}
		} else {
			i.syncWrite(st.c)
			need = true
		}
	}
	if need {
		i.schedPoint(fr, "select")
	}
	ready := func() []int {
		i.fireTimers()
		var r []int
		for k, s := range states {
			if s.c == nil {
				continue
			}
			if s.send {
				if s.c.closed || len(s.c.buf) < s.c.capacity {
					r = append(r, k)
				}
			} else if s.c.closed || len(s.c.buf) > 0 {
				r = append(r, k)
			}
		}
		return r
	}
	rd := ready()
	chosen := -1
	if len(rd) == 0 {
		if !instr.Blocking {
			chosen = -1
		} else {
			i.block(fr, func() bool { return len(ready()) > 0 }, "select")
			rd = ready()
		}
	}
	if len(rd) > 0 {
		k := 0
		if len(rd) > 1 {
			// Go picks a ready case pseudo-randomly: every choice is explored
			k = i.path.chooseIndex(len(rd))
		}
		chosen = rd[k]
	}
	recvOk := false
	var recv value
	if chosen >= 0 {
		s := states[chosen]
		if s.send {
			if s.c.closed {
				panic(runtimeError("send on closed channel"))
			}
			i.chanPut(s.c, s.v)
		} else if len(s.c.buf) > 0 {
			i.syncWrite(s.c)
			recv = i.chanTake(s.c)
			recvOk = true
		} else {
			i.acquire(s.c.vc)
		}
	}
	r := tuple{chosen, recvOk}
	for k, s := range instr.States {
		if s.Dir == types.RecvOnly {
			var v value
			if k == chosen && recvOk {
				v = recv
			} else {
				v = zero(s.Chan.Type().Underlying().(*types.Chan).Elem())
			}
			r = append(r, v)
		}
	}
	return r
}

// ---------------------------------------------------------------- mutexes (sync.Mutex / sync.RWMutex)

// mutexModel lives in field 0 of the interpreted sync.Mutex / sync.RWMutex structure.
type mutexModel struct {
	writer  int // thread id holding the write lock, -1 if none
	readers []int
	wwait   int // writers waiting (a blocked Lock excludes new readers)
	vc      vclock
	rvc     vclock
	id      int // creation number for models created during the (deterministic) setup, 0 for those created on a path
}

func (i *interpreter) mutexOf(recv value) *mutexModel {
	p := recv.(*value)
	if p == nil {
		panic(runtimeError("invalid memory address or nil pointer dereference"))
	}
	st := (*p).(structure)
	if m, ok := st[0].(*mutexModel); ok {
		return m
	}
	m := &mutexModel{writer: -1}
	if i.path != nil && i.path.setup {
		i.setupMutexes++
		m.id = i.setupMutexes
	}
	old := st[0]
	i.logUndo(func() { st[0] = old })
	st[0] = m
	return m
}

func (i *interpreter) mutexSnapshot(m *mutexModel) {
	if i.undoOn {
		old := *m
		old.readers = append([]int(nil), m.readers...)
		i.logUndo(func() { *m = old })
	}
}

func (i *interpreter) mutexLock(fr *frame, m *mutexModel) {
	i.syncWrite(m)
	i.schedPoint(fr, "Lock")
	tid := i.sched.cur.id
	free := func() bool { return m.writer < 0 && len(m.readers) == 0 }
	if !free() {
		i.mutexSnapshot(m)
		m.wwait++
		i.block(fr, free, "Lock")
		i.mutexSnapshot(m)
		m.wwait--
	}
	i.mutexSnapshot(m)
	m.writer = tid
	i.acquire(m.vc)
	i.acquire(m.rvc)
}

func (i *interpreter) mutexUnlock(fr *frame, m *mutexModel) {
	if m.writer < 0 {
		panic(fatalError("sync: unlock of unlocked mutex"))
	}
	i.mutexSnapshot(m)
	m.writer = -1
	m.vc = m.vc.clone()
	i.release(&m.vc)
	i.schedPoint(fr, "Unlock")
}

func (i *interpreter) mutexRLock(fr *frame, m *mutexModel) {
	if i.syncRead(fr, m, "RLock") {
		i.schedPoint(fr, "RLock")
	}
	tid := i.sched.cur.id
	ok := func() bool { return m.writer < 0 && m.wwait == 0 }
	if !ok() {
		i.block(fr, ok, "RLock")
	}
	i.mutexSnapshot(m)
	m.readers = append(m.readers, tid)
	i.acquire(m.vc)
}

func (i *interpreter) mutexRUnlock(fr *frame, m *mutexModel) {
	if len(m.readers) == 0 {
		panic(fatalError("sync: RUnlock of unlocked RWMutex"))
	}
	i.mutexSnapshot(m)
	m.readers = m.readers[:len(m.readers)-1]
	m.rvc = m.rvc.clone()
	i.release(&m.rvc)
	if i.syncRead(fr, m, "RUnlock") {
		i.schedPoint(fr, "RUnlock")
	}
}

// fatalError is an unrecoverable runtime throw (e.g. unlock of unlocked mutex).
type fatalError string

func (f fatalError) engineAbort() string { return "fatal: " + string(f) }

// ---------------------------------------------------------------- virtual time

type timerModel struct {
	when  value // int64 or term: absolute virtual ns
	fire  func()
	fired bool
}

func (i *interpreter) now() value { return i.vclock }

// timeLE decides a <= b for virtual instants.
func (i *interpreter) timeLE(a, b value) bool {
	at, aok := a.(*smt.Term)
	bt, bok := b.(*smt.Term)
	if !aok && !bok {
		return a.(int64) <= b.(int64)
	}
	if !aok {
		at = smt.Const(64, uint64(a.(int64)))
	}
	if !bok {
		bt = smt.Const(64, uint64(b.(int64)))
	}
	return i.path.decide(smt.Bin(smt.OpSle, at, bt))
}

func (i *interpreter) addTimer(when value, fire func()) *timerModel {
	t := &timerModel{when: when, fire: fire}
	s := i.sched
	old := s.timers
	i.logUndo(func() { s.timers = old })
	s.timers = append(append([]*timerModel(nil), s.timers...), t)
	return t
}

// fireTimers fires every timer whose instant is not after the clock.
func (i *interpreter) fireTimers() {
	s := i.sched
	for _, t := range s.timers {
		if !t.fired && i.timeLE(t.when, i.vclock) {
			t.fired = true
			if t.fire != nil {
				t.fire()
			}
		}
	}
}

// advanceClock moves virtual time to the earliest pending timer; false if none.
func (i *interpreter) advanceClock() bool {
	s := i.sched
	var best *timerModel
	for _, t := range s.timers {
		if t.fired {
			continue
		}
		if best == nil || !i.timeLE(best.when, t.when) {
			best = t
		}
	}
	if best == nil {
		return false
	}
	old := i.vclock
	i.logUndo(func() { i.vclock = old })
	i.vclock = best.when
	i.fireTimers()
	return true
}

// SYMGO_SCHEDSTAT=1: count scheduling points by kind and site (diagnostics)
var schedStat map[string]int
var schedStatMu sync.Mutex

func init() {
	if os.Getenv("SYMGO_SCHEDSTAT") != "" {
		schedStat = map[string]int{}
	}
}

// DumpSchedStat prints the collected counts.
func DumpSchedStat() {
	if schedStat == nil {
		return
	}
	type kv struct {
		k string
		v int
	}
	var l []kv
	for k, v := range schedStat {
		l = append(l, kv{k, v})
	}
	sort.Slice(l, func(a, b int) bool { return l[a].v > l[b].v })
	for _, e := range l {
		fmt.Fprintf(os.Stderr, "%8d %s\n", e.v, e.k)
	}
}

// ---------------------------------------------------------------- read-only synchronisation operations
//
// RLock/RUnlock, atomic loads and non-blocking receive polls do not change what
// any other thread can observe unless some other thread performs a modifying
// operation (Lock, send, receive, close, atomic store) on the same object.  Such
// "read" operations are scheduling points only at source sites in the hot set:
// the set of read sites that touched, in some explored execution, an object also
// modified by another thread in that execution.  Whenever a path discovers a new
// hot site the whole exploration restarts with the larger set (Explore), so the
// final, complete exploration ran with a set under which no skipped read
// operation conflicts with anything in any explored execution; by the usual
// commutation argument (the first conflict of an unexplored execution would also
// occur in an explored one with the same per-thread operation sequences, and
// conflicts are flagged whatever their order) that exploration covers every
// interleaving of the full scheduling-point set up to equivalence.

type syncUse struct {
	readers, writers uint64
	readSites        map[string]bool
}

type hotSet struct {
	mu    sync.RWMutex
	sites map[string]bool
	added int64
}

func (h *hotSet) has(site string) bool {
	h.mu.RLock()
	r := h.sites[site]
	h.mu.RUnlock()
	return r
}

func (h *hotSet) add(sites map[string]bool) bool {
	h.mu.Lock()
	defer h.mu.Unlock()
	grew := false
	for s := range sites {
		if !h.sites[s] {
			h.sites[s] = true
			h.added++
			grew = true
		}
	}
	return grew
}

func (i *interpreter) syncUseOf(obj interface{}) *syncUse {
	u := i.syncUses[obj]
	if u == nil {
		u = &syncUse{readSites: map[string]bool{}}
		i.syncUses[obj] = u
	}
	return u
}

// syncRead records a read-only synchronisation operation and reports whether it is a scheduling point.
func (i *interpreter) syncRead(fr *frame, obj interface{}, why string) bool {
	s := i.sched
	if s == nil || i.path == nil || i.path.setup || i.hot == nil {
		return true
	}
	rs := repoSite(fr)
	if rs == "" {
		// not inside the code under test (harness, library internals without a caller in it): always a point
		i.syncWrite(obj)
		return true
	}
	site := why + "@" + rs
	if m, ok := obj.(*mutexModel); ok && m.id != 0 {
		// a mutex that exists since the setup (e.g. the root environment's) is told apart from the
		// mutexes of objects created on the path (e.g. the scopes of one evaluation)
		site += "#" + strconv.Itoa(m.id)
	}
	u := i.syncUseOf(obj)
	bit := uint64(1) << uint(s.cur.id&63)
	u.readers |= bit
	u.readSites[site] = true
	if u.writers&^bit != 0 {
		i.markHot(u)
	}
	return i.hot.has(site)
}

// syncWrite records a modifying synchronisation operation on obj.
func (i *interpreter) syncWrite(obj interface{}) {
	s := i.sched
	if s == nil || i.path == nil || i.path.setup || i.hot == nil {
		return
	}
	u := i.syncUseOf(obj)
	bit := uint64(1) << uint(s.cur.id&63)
	u.writers |= bit
	if u.readers&^bit != 0 {
		i.markHot(u)
	}
}

func (i *interpreter) markHot(u *syncUse) {
	if len(u.readSites) == 0 {
		return
	}
	if i.hot.add(u.readSites) {
		i.hotGrew()
	}
}
