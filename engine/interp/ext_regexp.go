package interp

// regexp model.  Concrete subjects use the host regexp package.  Subjects with
// symbolic bytes are matched by a backtracking matcher over the parsed
// regexp/syntax tree with leftmost-first (Perl-like) semantics, which is what
// Go's non-POSIX regexp implements; every character test on a symbolic byte
// is decided through the path context.  Only anchored patterns (leading ^) are
// supported for symbolic subjects.

import (
	"go/types"
	"regexp"
	"regexp/syntax"

	"symgo/smt"
)

type regexpModel struct {
	pat  string
	re   *regexp.Regexp
	tree *syntax.Regexp
	ncap int
}

func extRegexpMustCompile(fr *frame, a []value) value {
	pat, ok := a[0].(string)
	if !ok {
		unsupported("regexp.MustCompile with symbolic pattern")
	}
	re, err := regexp.Compile(pat)
	if err != nil {
		panic(targetPanic{iface{fr.i.runtimeErrorString, "regexp: Compile(" + pat + "): " + err.Error()}})
	}
	tree, _ := syntax.Parse(pat, syntax.Perl)
	var cell value = &regexpModel{pat: pat, re: re, tree: tree.Simplify(), ncap: re.NumSubexp()}
	return &cell
}

func regexpOf(v value) *regexpModel {
	p := v.(*value)
	if p == nil {
		panic(runtimeError("invalid memory address or nil pointer dereference"))
	}
	m, ok := (*p).(*regexpModel)
	if !ok {
		unsupported("regexp value not created by the modelled MustCompile")
	}
	return m
}

func strsToValue(ss []string) []value {
	out := make([]value, len(ss))
	for k, s := range ss {
		out[k] = s
	}
	return out
}

func extRegexpFindStringSubmatch(fr *frame, a []value) value {
	m := regexpOf(a[0])
	if s, ok := a[1].(string); ok {
		r := m.re.FindStringSubmatch(s)
		if r == nil {
			return []value(nil)
		}
		return strsToValue(r)
	}
	caps, ok := fr.i.symMatch(m, strBytes(a[1]))
	if !ok {
		return []value(nil)
	}
	return capsToValue(strBytes(a[1]), caps)
}

func capsToValue(b []value, caps []int) []value {
	out := make([]value, len(caps)/2)
	for k := range out {
		if caps[2*k] < 0 {
			out[k] = ""
		} else {
			out[k] = mkStr(b[caps[2*k]:caps[2*k+1]])
		}
	}
	return out
}

func extRegexpFindAllStringSubmatch(fr *frame, a []value) value {
	m := regexpOf(a[0])
	n := int(fr.i.concInt(a[2], true))
	if s, ok := a[1].(string); ok {
		r := m.re.FindAllStringSubmatch(s, n)
		if r == nil {
			return []value(nil)
		}
		out := make([]value, len(r))
		for k := range r {
			out[k] = strsToValue(r[k])
		}
		return out
	}
	// anchored pattern: at most one match
	caps, ok := fr.i.symMatch(m, strBytes(a[1]))
	if !ok || n == 0 {
		return []value(nil)
	}
	return []value{capsToValue(strBytes(a[1]), caps)}
}

func extRegexpMatchString(fr *frame, a []value) value {
	m := regexpOf(a[0])
	if s, ok := a[1].(string); ok {
		return m.re.MatchString(s)
	}
	_, ok := fr.i.symMatch(m, strBytes(a[1]))
	return ok
}

// symMatch matches an anchored pattern at position 0.
func (i *interpreter) symMatch(m *regexpModel, b []value) ([]int, bool) {
	if !anchored(m.tree) {
		unsupported("regexp %q is not anchored; symbolic subject", m.pat)
	}
	caps := make([]int, 2*(m.ncap+1))
	for k := range caps {
		caps[k] = -1
	}
	var result []int
	ok := i.reMatch(m.tree, b, 0, caps, func(pos int, caps []int) bool {
		result = append([]int(nil), caps...)
		result[0], result[1] = 0, pos
		return true
	})
	return result, ok
}

func anchored(re *syntax.Regexp) bool {
	switch re.Op {
	case syntax.OpBeginText:
		return true
	case syntax.OpConcat:
		return len(re.Sub) > 0 && anchored(re.Sub[0])
	case syntax.OpCapture:
		return anchored(re.Sub[0])
	}
	return false
}

// reMatch: continuation-passing backtracking matcher.
func (i *interpreter) reMatch(re *syntax.Regexp, b []value, pos int, caps []int, k func(int, []int) bool) bool {
	switch re.Op {
	case syntax.OpEmptyMatch:
		return k(pos, caps)
	case syntax.OpBeginText:
		if pos != 0 {
			return false
		}
		return k(pos, caps)
	case syntax.OpEndText:
		if pos != len(b) {
			return false
		}
		return k(pos, caps)
	case syntax.OpBeginLine:
		if pos == 0 || i.decideEq(nil, b[pos-1], uint8('\n')) {
			return k(pos, caps)
		}
		return false
	case syntax.OpEndLine:
		if pos == len(b) || i.decideEq(nil, b[pos], uint8('\n')) {
			return k(pos, caps)
		}
		return false
	case syntax.OpLiteral:
		if re.Flags&syntax.FoldCase != 0 {
			unsupported("regexp: case folding on symbolic subject")
		}
		lit := strBytes(string(re.Rune))
		if !i.path.decide(matchAtTerm(b, pos, lit)) {
			return false
		}
		return k(pos+len(lit), caps)
	case syntax.OpCharClass, syntax.OpAnyCharNotNL, syntax.OpAnyChar:
		if pos >= len(b) {
			return false
		}
		r, w := i.decodeRuneAt(b, pos)
		if !i.runeInClass(re, r) {
			return false
		}
		return k(pos+w, caps)
	case syntax.OpCapture:
		old0, old1 := caps[2*re.Cap], caps[2*re.Cap+1]
		ok := i.reMatch(re.Sub[0], b, pos, caps, func(p2 int, c2 []int) bool {
			s0, s1 := c2[2*re.Cap], c2[2*re.Cap+1]
			c2[2*re.Cap], c2[2*re.Cap+1] = pos, p2
			if k(p2, c2) {
				return true
			}
			c2[2*re.Cap], c2[2*re.Cap+1] = s0, s1
			return false
		})
		if !ok {
			caps[2*re.Cap], caps[2*re.Cap+1] = old0, old1
		}
		return ok
	case syntax.OpConcat:
		var seq func(n int, p int, c []int) bool
		seq = func(n int, p int, c []int) bool {
			if n == len(re.Sub) {
				return k(p, c)
			}
			return i.reMatch(re.Sub[n], b, p, c, func(p2 int, c2 []int) bool { return seq(n+1, p2, c2) })
		}
		return seq(0, pos, caps)
	case syntax.OpAlternate:
		for _, s := range re.Sub {
			if i.reMatch(s, b, pos, caps, k) {
				return true
			}
		}
		return false
	case syntax.OpStar, syntax.OpPlus, syntax.OpQuest:
		greedy := re.Flags&syntax.NonGreedy == 0
		min := 0
		max := -1
		if re.Op == syntax.OpPlus {
			min = 1
		}
		if re.Op == syntax.OpQuest {
			max = 1
		}
		var rep func(n int, p int, c []int) bool
		rep = func(n int, p int, c []int) bool {
			more := func() bool {
				if max >= 0 && n >= max {
					return false
				}
				return i.reMatch(re.Sub[0], b, p, c, func(p2 int, c2 []int) bool {
					if p2 == p {
						return false // no progress
					}
					return rep(n+1, p2, c2)
				})
			}
			if n < min {
				return more()
			}
			if greedy {
				if more() {
					return true
				}
				return k(p, c)
			}
			if k(p, c) {
				return true
			}
			return more()
		}
		return rep(0, pos, caps)
	case syntax.OpRepeat:
		unsupported("regexp: counted repetition on symbolic subject")
	}
	unsupported("regexp: operator %v on symbolic subject", re.Op)
	return false
}

func (i *interpreter) runeInClass(re *syntax.Regexp, r value) bool {
	var ranges []rune
	switch re.Op {
	case syntax.OpAnyChar:
		return true
	case syntax.OpAnyCharNotNL:
		ranges = []rune{0, '\n' - 1, '\n' + 1, 0x10FFFF}
	default:
		ranges = re.Rune
	}
	if cr, ok := r.(int32); ok {
		for k := 0; k+1 < len(ranges); k += 2 {
			if ranges[k] <= cr && cr <= ranges[k+1] {
				return true
			}
		}
		return false
	}
	rt := r.(*smt.Term)
	c := smt.False
	for k := 0; k+1 < len(ranges); k += 2 {
		lo, hi := uint64(uint32(ranges[k])), uint64(uint32(ranges[k+1]))
		if lo == hi {
			c = smt.Or(c, smt.Eq(rt, smt.Const(32, lo)))
		} else {
			c = smt.Or(c, smt.And(smt.Bin(smt.OpUle, smt.Const(32, lo), rt), smt.Bin(smt.OpUle, rt, smt.Const(32, hi))))
		}
	}
	return i.path.decide(c)
}

var _ = types.Int
