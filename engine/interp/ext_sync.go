package interp

// sync/atomic and time models.

import (
	"go/token"
	"go/types"

	"symgo/smt"
)

// atomicVC gives every atomic object a vector clock (release on store, acquire on load).
func (i *interpreter) atomicSync(obj *value, store bool) {
	s := i.sched
	if s == nil || !s.multi() {
		return
	}
	vc := s.atomics[obj]
	if store {
		nv := vc.clone()
		i.release(&nv)
		old := vc
		i.logUndo(func() { s.atomics[obj] = old })
		s.atomics[obj] = nv
	}
	i.acquire(s.atomics[obj])
}

// atomicPoint is the scheduling point in front of an atomic operation on obj.
func (i *interpreter) atomicPoint(obj *value, store bool) {
	s := i.sched
	if s == nil || !s.multi() {
		return
	}
	fr := i.curFrame()
	if store {
		i.syncWrite(obj)
		i.schedPoint(fr, "atomic")
	} else if i.syncRead(fr, obj, "atomic-load") {
		i.schedPoint(fr, "atomic")
	}
}

// atomicRMW performs an atomic read(-modify-write) on *addr with acquire/release ordering.
func (i *interpreter) atomicRMW(addr value, f func(value) value, store bool) value {
	p := addr.(*value)
	if p == nil {
		panic(runtimeError("invalid memory address or nil pointer dereference"))
	}
	i.atomicPoint(p, store)
	if f != nil {
		i.logAddr(p)
		*p = f(*p)
	}
	r := *p
	i.atomicSync(p, store)
	return r
}

func (i *interpreter) atomicCAS(addr, old, nw value) value {
	p := addr.(*value)
	if p == nil {
		panic(runtimeError("invalid memory address or nil pointer dereference"))
	}
	i.atomicPoint(p, true)
	ok := *p == old
	if ok {
		i.logAddr(p)
		*p = nw
	}
	i.atomicSync(p, ok)
	return ok
}

func fieldPtr(recv value, field int) (*value, *value) {
	p := recv.(*value)
	if p == nil {
		panic(runtimeError("invalid memory address or nil pointer dereference"))
	}
	st := (*p).(structure)
	return p, &st[field]
}

func init() {
	for k, v := range map[string]externalFn{
		"(*sync/atomic.Value).Load": func(fr *frame, a []value) value {
			obj, f := fieldPtr(a[0], 0)
			fr.i.atomicPoint(obj, false)
			fr.i.atomicSync(obj, false)
			return *f
		},
		"(*sync/atomic.Value).Store": func(fr *frame, a []value) value {
			obj, f := fieldPtr(a[0], 0)
			fr.i.atomicPoint(obj, true)
			if v, ok := a[1].(iface); ok && v.t == nil {
				panic(targetPanic{iface{fr.i.runtimeErrorString, "sync/atomic: store of nil value into Value"}})
			}
			fr.i.logAddr(f)
			*f = a[1]
			fr.i.atomicSync(obj, true)
			return nil
		},
		"(*sync/atomic.Int32).Add": func(fr *frame, a []value) value {
			obj, f := fieldPtr(a[0], 1)
			fr.i.atomicPoint(obj, true)
			fr.i.logAddr(f)
			*f = (*f).(int32) + a[1].(int32)
			fr.i.atomicSync(obj, true)
			return *f
		},
		"(*sync/atomic.Int32).Load": func(fr *frame, a []value) value {
			obj, f := fieldPtr(a[0], 1)
			fr.i.atomicPoint(obj, false)
			fr.i.atomicSync(obj, false)
			return *f
		},
		"(*sync/atomic.Int32).Store": func(fr *frame, a []value) value {
			obj, f := fieldPtr(a[0], 1)
			fr.i.atomicPoint(obj, true)
			fr.i.logAddr(f)
			*f = a[1]
			fr.i.atomicSync(obj, true)
			return nil
		},

		// package-level atomic functions on plain integer variables
		"sync/atomic.AddInt32":  func(fr *frame, a []value) value { return fr.i.atomicRMW(a[0], func(v value) value { return v.(int32) + a[1].(int32) }, true) },
		"sync/atomic.AddInt64":  func(fr *frame, a []value) value { return fr.i.atomicRMW(a[0], func(v value) value { return v.(int64) + a[1].(int64) }, true) },
		"sync/atomic.AddUint32": func(fr *frame, a []value) value { return fr.i.atomicRMW(a[0], func(v value) value { return v.(uint32) + a[1].(uint32) }, true) },
		"sync/atomic.AddUint64": func(fr *frame, a []value) value { return fr.i.atomicRMW(a[0], func(v value) value { return v.(uint64) + a[1].(uint64) }, true) },
		"sync/atomic.LoadInt32":  func(fr *frame, a []value) value { return fr.i.atomicRMW(a[0], nil, false) },
		"sync/atomic.LoadInt64":  func(fr *frame, a []value) value { return fr.i.atomicRMW(a[0], nil, false) },
		"sync/atomic.LoadUint32": func(fr *frame, a []value) value { return fr.i.atomicRMW(a[0], nil, false) },
		"sync/atomic.LoadUint64": func(fr *frame, a []value) value { return fr.i.atomicRMW(a[0], nil, false) },
		"sync/atomic.StoreInt32":  func(fr *frame, a []value) value { fr.i.atomicRMW(a[0], func(value) value { return a[1] }, true); return nil },
		"sync/atomic.StoreInt64":  func(fr *frame, a []value) value { fr.i.atomicRMW(a[0], func(value) value { return a[1] }, true); return nil },
		"sync/atomic.StoreUint32": func(fr *frame, a []value) value { fr.i.atomicRMW(a[0], func(value) value { return a[1] }, true); return nil },
		"sync/atomic.StoreUint64": func(fr *frame, a []value) value { fr.i.atomicRMW(a[0], func(value) value { return a[1] }, true); return nil },
		"sync/atomic.CompareAndSwapInt32": func(fr *frame, a []value) value { return fr.i.atomicCAS(a[0], a[1], a[2]) },
		"sync/atomic.CompareAndSwapInt64": func(fr *frame, a []value) value { return fr.i.atomicCAS(a[0], a[1], a[2]) },
		"(*sync/atomic.Int64).Add": func(fr *frame, a []value) value {
			_, f := fieldPtr(a[0], 2)
			return fr.i.atomicRMW(f, func(v value) value { return v.(int64) + a[1].(int64) }, true)
		},
		"(*sync/atomic.Int64).Load": func(fr *frame, a []value) value { _, f := fieldPtr(a[0], 2); return fr.i.atomicRMW(f, nil, false) },
		"(*sync/atomic.Bool).Load":  func(fr *frame, a []value) value { _, f := fieldPtr(a[0], 1); return fr.i.atomicRMW(f, nil, false).(uint32) != 0 },
		"(*sync/atomic.Bool).Store": func(fr *frame, a []value) value {
			_, f := fieldPtr(a[0], 1)
			var n uint32
			if a[1].(bool) {
				n = 1
			}
			fr.i.atomicRMW(f, func(value) value { return n }, true)
			return nil
		},

		// ---- time: instants are int64 (or symbolic) nanoseconds of the engine's virtual clock,
		// carried in the ext field of time.Time (wall = 0, loc = nil)
		"time.Now": func(fr *frame, a []value) value { return mkTime(fr.i.now()) },
		"time.Until": func(fr *frame, a []value) value {
			return fr.i.timeSub(timeOf(a[0]), fr.i.now())
		},
		"time.Since": func(fr *frame, a []value) value {
			return fr.i.timeSub(fr.i.now(), timeOf(a[0]))
		},
		"(time.Time).Sub": func(fr *frame, a []value) value { return fr.i.timeSub(timeOf(a[0]), timeOf(a[1])) },
		"(time.Time).Add": func(fr *frame, a []value) value {
			return mkTime(binop(fr.i, token_ADD, types.Typ[types.Int64], timeOf(a[0]), a[1]))
		},
		"(time.Time).Before": func(fr *frame, a []value) value {
			return binop(fr.i, token_LSS, types.Typ[types.Int64], timeOf(a[0]), timeOf(a[1]))
		},
		"(time.Time).After": func(fr *frame, a []value) value {
			return binop(fr.i, token_LSS, types.Typ[types.Int64], timeOf(a[1]), timeOf(a[0]))
		},
		"(time.Time).Equal": func(fr *frame, a []value) value {
			return binop(fr.i, token_EQL, types.Typ[types.Int64], timeOf(a[0]), timeOf(a[1]))
		},
		"(time.Time).IsZero": func(fr *frame, a []value) value {
			return binop(fr.i, token_EQL, types.Typ[types.Int64], timeOf(a[0]), int64(0))
		},
		"(time.Time).UnixMilli": func(fr *frame, a []value) value {
			return binop(fr.i, token_QUO, types.Typ[types.Int64], timeOf(a[0]), int64(1000000))
		},
		"(time.Time).UnixNano": func(fr *frame, a []value) value { return timeOf(a[0]) },
		"time.After": func(fr *frame, a []value) value {
			i := fr.i
			c := newChan(1)
			when := binop(i, token_ADD, types.Typ[types.Int64], i.now(), a[0])
			i.addTimer(when, func() {
				if len(c.buf) < c.capacity {
					i.chanPut(c, mkTime(when))
				}
			})
			return c
		},
		"time.Sleep": func(fr *frame, a []value) value {
			i := fr.i
			when := binop(i, token_ADD, types.Typ[types.Int64], i.now(), a[0])
			fired := false
			i.addTimer(when, func() { fired = true })
			i.block(fr, func() bool { i.fireTimers(); return fired }, "time.Sleep")
			return nil
		},
		"time.AfterFunc": func(fr *frame, a []value) value {
			i := fr.i
			when := binop(i, token_ADD, types.Typ[types.Int64], i.now(), a[0])
			fn := a[1]
			tm := i.addTimer(when, nil)
			// the call of AfterFunc happens before the callback: the callback starts with the creator's clock
			var created vclock
			if i.sched != nil && i.sched.cur != nil {
				i.release(&created)
			}
			tm.fire = func() {
				// the callback runs on the current thread at the instant the timer fires
				if i.sched != nil && i.sched.cur != nil {
					i.acquire(created)
				}
				call(i, i.curFrame(), 0, fn, nil)
			}
			var cell value = tm
			return &cell
		},
		"(*time.Timer).Stop": func(fr *frame, a []value) value {
			p := a[0].(*value)
			if p == nil {
				panic(runtimeError("invalid memory address or nil pointer dereference"))
			}
			tm := (*p).(*timerModel)
			was := !tm.fired
			tm.fired = true
			return was
		},
	} {
		externals[k] = v
	}
}

func mkTime(ns value) value { return structure{uint64(0), ns, (*value)(nil)} }

func timeOf(t value) value { return t.(structure)[1] }

func (i *interpreter) timeSub(a, b value) value {
	return binop(i, token_SUB, types.Typ[types.Int64], a, b)
}

const (
	token_ADD = token.ADD
	token_SUB = token.SUB
	token_LSS = token.LSS
	token_EQL = token.EQL
	token_QUO = token.QUO
)

var _ = smt.True
