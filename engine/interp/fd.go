package interp

// Finite-domain fast path for feasibility queries.
//
// Symbolic inputs created with a small explicit domain (ByteIn, Bool, Choice,
// small IntRange) are grouped into clusters of variables connected by path
// constraints.  For a cluster whose joint domain is small the set of
// assignments satisfying the cluster's constraints is kept explicitly and
// filtered as constraints are added; whether a branch side is feasible is then
// decided by evaluating the condition over that set -- a complete decision
// procedure for this fragment, used only for *feasibility* (which paths
// exist).  Property assertions are always discharged by the SMT solver, and a
// sample of fast-path verdicts is cross-checked against it.

import (
	"sort"

	"symgo/smt"
)

const fdCap = 4096

type fdCluster struct {
	vars []string   // sorted names
	sols [][]uint64 // satisfying assignments aligned with vars; nil when big
	big  bool       // not enumerable (unbounded variable or joint domain too large)
	cons []*smt.Term
}

type fdState struct {
	dom     map[string][]uint64
	cluster map[string]*fdCluster
	varsOf  map[*smt.Term][]string
}

func newFD() *fdState {
	return &fdState{dom: map[string][]uint64{}, cluster: map[string]*fdCluster{}, varsOf: map[*smt.Term][]string{}}
}

func (f *fdState) declare(name string, dom []uint64) {
	if _, ok := f.dom[name]; ok {
		return
	}
	f.dom[name] = dom
	c := &fdCluster{vars: []string{name}}
	if dom == nil || len(dom) > fdCap {
		c.big = true
	} else {
		for _, v := range dom {
			c.sols = append(c.sols, []uint64{v})
		}
	}
	f.cluster[name] = c
}

func (f *fdState) termVars(t *smt.Term) []string {
	if vs, ok := f.varsOf[t]; ok {
		return vs
	}
	m := map[string]uint8{}
	smt.Vars(t, m, map[*smt.Term]bool{})
	vs := make([]string, 0, len(m))
	for n := range m {
		vs = append(vs, n)
	}
	sort.Strings(vs)
	f.varsOf[t] = vs
	return vs
}

// merged returns the cluster covering all of vs, merging (functionally) the
// clusters involved; commit says whether the merge is recorded.
func (f *fdState) merged(vs []string, commit bool) *fdCluster {
	var parts []*fdCluster
	seen := map[*fdCluster]bool{}
	for _, v := range vs {
		c := f.cluster[v]
		if c == nil {
			// variable never declared with a domain
			f.declare(v, nil)
			c = f.cluster[v]
		}
		if !seen[c] {
			seen[c] = true
			parts = append(parts, c)
		}
	}
	if len(parts) == 1 {
		return parts[0]
	}
	m := &fdCluster{}
	size := 1
	for _, c := range parts {
		m.vars = append(m.vars, c.vars...)
		m.cons = append(m.cons, c.cons...)
		if c.big {
			m.big = true
		} else if !m.big {
			size *= len(c.sols)
			if size > fdCap {
				m.big = true
			}
		}
	}
	if !m.big {
		// cross product, keeping the order of parts
		m.sols = [][]uint64{{}}
		for _, c := range parts {
			var next [][]uint64
			for _, a := range m.sols {
				for _, b := range c.sols {
					row := make([]uint64, 0, len(a)+len(b))
					row = append(append(row, a...), b...)
					next = append(next, row)
				}
			}
			m.sols = next
		}
	}
	if commit {
		for _, v := range m.vars {
			f.cluster[v] = m
		}
	}
	return m
}

func evalUnder(t *smt.Term, small bool, vars []string, row []uint64, scratch map[string]uint64) uint64 {
	for k, n := range vars {
		scratch[n] = row[k]
	}
	if small {
		return smt.EvalTree(t, scratch)
	}
	return smt.Eval(t, scratch, map[*smt.Term]uint64{})
}

func isSmall(t *smt.Term) bool { return smt.Size(t, 400) < 400 }

// clone returns a snapshot; clusters are copy-on-write so sharing is safe.
func (f *fdState) clone() *fdState {
	c := &fdState{dom: make(map[string][]uint64, len(f.dom)), cluster: make(map[string]*fdCluster, len(f.cluster)), varsOf: map[*smt.Term][]string{}}
	for k, v := range f.dom {
		c.dom[k] = v
	}
	for k, v := range f.cluster {
		c.cluster[k] = v
	}
	return c
}

// add records a path constraint.
func (f *fdState) add(t *smt.Term) {
	vs := f.termVars(t)
	if len(vs) == 0 {
		return
	}
	old := f.merged(vs, false)
	// copy-on-write: snapshots held by queued work items keep the old cluster
	c := &fdCluster{vars: old.vars, big: old.big, cons: append(append([]*smt.Term(nil), old.cons...), t)}
	if !c.big {
		scratch := map[string]uint64{}
		small := isSmall(t)
		for _, row := range old.sols {
			if evalUnder(t, small, c.vars, row, scratch) != 0 {
				c.sols = append(c.sols, row)
			}
		}
	}
	for _, v := range c.vars {
		f.cluster[v] = c
	}
}

// feasible decides pc ∧ t over the finite-domain fragment.
// ok=false means the fast path does not apply.
func (f *fdState) feasible(t *smt.Term) (sat bool, witness map[string]uint64, ok bool) {
	vs := f.termVars(t)
	if len(vs) == 0 {
		return false, nil, false
	}
	c := f.merged(vs, false)
	if c.big {
		return false, nil, false
	}
	scratch := map[string]uint64{}
	small := isSmall(t)
	for _, row := range c.sols {
		if evalUnder(t, small, c.vars, row, scratch) != 0 {
			w := make(map[string]uint64, len(c.vars))
			for k, n := range c.vars {
				w[n] = row[k]
			}
			return true, w, true
		}
	}
	return false, nil, true
}

// values enumerates the distinct feasible values of t with a witness each.
func (f *fdState) values(t *smt.Term) (vals []uint64, wits []map[string]uint64, ok bool) {
	vs := f.termVars(t)
	if len(vs) == 0 {
		return nil, nil, false
	}
	c := f.merged(vs, false)
	if c.big {
		return nil, nil, false
	}
	scratch := map[string]uint64{}
	seen := map[uint64]bool{}
	small := isSmall(t)
	for _, row := range c.sols {
		v := evalUnder(t, small, c.vars, row, scratch)
		if !seen[v] {
			seen[v] = true
			w := make(map[string]uint64, len(c.vars))
			for k, n := range c.vars {
				w[n] = row[k]
			}
			vals = append(vals, v)
			wits = append(wits, w)
		}
	}
	return vals, wits, true
}

// smallDomain reports whether every variable of t was declared with a finite
// domain and the joint domain has at most limit assignments.  It depends only
// on declarations (never on the path condition), so it is replay-stable.
func (p *pathCtx) smallDomain(t *smt.Term, limit int) bool {
	m := map[string]uint8{}
	smt.Vars(t, m, map[*smt.Term]bool{})
	size := 1
	for n := range m {
		d := p.fd.dom[n]
		if p.fdFrom != nil {
			if d2, ok := p.fdFrom.dom[n]; ok && d == nil {
				d = d2
			}
		}
		if d == nil {
			return false
		}
		if size <= limit {
			size *= len(d)
		}
		if size > limit {
			return false
		}
	}
	return true
}
