package interp

// Model of reflect.DeepEqual over interpreter values (the reflect package's
// own implementation reaches unsafe pointer arithmetic the engine does not
// execute).  Follows the documented rules: identical types, pointers equal
// or deeply equal pointees, slices/maps both nil or both non-nil with equal
// lengths and deeply equal elements, interfaces by deeply equal dynamic
// values, funcs equal only if both nil.  Scalars may be symbolic: the result
// is a term.

import (
	"go/types"

	"golang.org/x/tools/go/ssa"

	"symgo/smt"
)

type deVisit struct{ a, b *value }

func ext۰reflect۰DeepEqual(fr *frame, args []value) value {
	i := fr.i
	x := i.forceIface(fr, args[0])
	y := i.forceIface(fr, args[1])
	if x.t == nil || y.t == nil {
		return x.t == nil && y.t == nil
	}
	if !sameType(x.t, y.t) {
		return false
	}
	return norm(types.Bool, i.deepEq(fr, x.t, x.v, y.v, map[deVisit]bool{}))
}

func (i *interpreter) deepEq(fr *frame, t types.Type, x, y value, seen map[deVisit]bool) *smt.Term {
	if isLazy(x) || isLazy(y) {
		x = i.forceIface(fr, x)
		y = i.forceIface(fr, y)
	}
	switch ut := t.Underlying().(type) {
	case *types.Basic:
		return eqTerm(i, t, x, y)
	case *types.Pointer:
		xp, ok1 := x.(*value)
		yp, ok2 := y.(*value)
		if !ok1 || !ok2 {
			return eqTerm(i, t, x, y)
		}
		if xp == yp {
			return smt.True
		}
		if xp == nil || yp == nil {
			return smt.False
		}
		k := deVisit{xp, yp}
		if seen[k] {
			return smt.True
		}
		seen[k] = true
		return i.deepEq(fr, ut.Elem(), *xp, *yp, seen)
	case *types.Struct:
		xs, ys := x.(structure), y.(structure)
		r := smt.True
		for k, n := 0, ut.NumFields(); k < n; k++ {
			r = smt.And(r, i.deepEq(fr, ut.Field(k).Type(), xs[k], ys[k], seen))
			if r == smt.False {
				return r
			}
		}
		return r
	case *types.Array:
		xa, ya := x.(array), y.(array)
		r := smt.True
		for k := range xa {
			r = smt.And(r, i.deepEq(fr, ut.Elem(), xa[k], ya[k], seen))
			if r == smt.False {
				return r
			}
		}
		return r
	case *types.Slice:
		xs, ys := x.([]value), y.([]value)
		if (xs == nil) != (ys == nil) || len(xs) != len(ys) {
			return smt.False
		}
		if len(xs) > 0 && &xs[0] == &ys[0] {
			return smt.True
		}
		r := smt.True
		for k := range xs {
			r = smt.And(r, i.deepEq(fr, ut.Elem(), xs[k], ys[k], seen))
			if r == smt.False {
				return r
			}
		}
		return r
	case *types.Map:
		xm, _ := x.(*omap)
		ym, _ := y.(*omap)
		if (xm == nil) != (ym == nil) || xm.len() != ym.len() {
			return smt.False
		}
		if xm == ym {
			return smt.True
		}
		r := smt.True
		for k, key := range xm.keys {
			p := ym.find(i, key)
			if p < 0 {
				return smt.False
			}
			r = smt.And(r, i.deepEq(fr, ut.Elem(), xm.vals[k], ym.vals[p], seen))
			if r == smt.False {
				return r
			}
		}
		return r
	case *types.Interface:
		xi, yi := i.forceIface(fr, x), i.forceIface(fr, y)
		if xi.t == nil || yi.t == nil {
			return smt.Bool(xi.t == nil && yi.t == nil)
		}
		if !sameType(xi.t, yi.t) {
			return smt.False
		}
		return i.deepEq(fr, xi.t, xi.v, yi.v, seen)
	case *types.Signature:
		return smt.Bool(isNilFunc(x) && isNilFunc(y))
	case *types.Chan:
		return eqTerm(i, t, x, y)
	}
	unsupported("reflect.DeepEqual on %s", t)
	return nil
}

func isNilFunc(v value) bool {
	switch f := v.(type) {
	case nil:
		return true
	case *closure:
		return f == nil
	case *ssa.Function:
		return f == nil
	case *ssa.Builtin:
		return f == nil
	}
	return false
}
