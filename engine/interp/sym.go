package interp

// Symbolic values, path conditions and decisions.
//
// A symbolic scalar is a *smt.Term (Bool or BitVec w); signedness comes from
// the static Go type at the operation.  A string with symbolic bytes is an
// sstr.  Every branch on a symbolic condition goes through pathCtx.decide,
// which follows the recorded decision prefix or, past its end, asks the
// solver which sides are feasible and queues the alternatives.

import (
	"fmt"
	"go/token"
	"go/types"
	"sort"
	"strings"

	"symgo/smt"
)

// ---------------------------------------------------------------- engine aborts

// enginePanic values unwind the interpreter without running target defers
// and without being recoverable by the target program.
type enginePanic interface{ engineAbort() string }

type abortAssume struct{}      // an Assume made the path infeasible
type abortUnsupported struct { // the engine cannot model something
	what string
}
type abortBudget struct{ what string } // step budget exhausted
type abortUnknown struct{ what string } // solver said unknown where a verdict was required
type abortKilled struct{}               // thread killed at path end
type abortDone struct{}                 // harness called vrt.Stop

func (abortAssume) engineAbort() string        { return "assume" }
func (a abortUnsupported) engineAbort() string { return "unsupported: " + a.what }
func (a abortBudget) engineAbort() string      { return "budget: " + a.what }
func (a abortUnknown) engineAbort() string     { return "unknown: " + a.what }
func (abortKilled) engineAbort() string        { return "killed" }
func (abortDone) engineAbort() string          { return "done" }

func unsupported(format string, args ...interface{}) {
	panic(abortUnsupported{fmt.Sprintf(format, args...)})
}

// ---------------------------------------------------------------- work items

// WorkItem is a decision prefix together with a model satisfying the path
// condition up to and including the last decision.
type WorkItem struct {
	Prefix []uint64
	Model  map[string]uint64
	Flags  int // 1 = feasibility of last decision unknown
	fd     *fdState
}

// Violation is a failed assertion (or escaping panic etc.) with a model.
type Violation struct {
	Kind   string // "assert", "panic", "deadlock", "race", "hang"
	Msg    string
	Site   string
	Model  map[string]uint64
	Vars   []string // variables created on the path, in creation order
	Widths map[string]uint8
	Prefix []uint64
	Trace  []string // observations
	Preempts []string // source sites ("dir/file.go:line" in the repository under test) at which a thread was preempted
}

// ---------------------------------------------------------------- path context

type pathCtx struct {
	i       *interpreter
	prefix  []uint64
	pos     int
	pc      []*smt.Term
	synced  int  // pc[:synced] asserted in solver
	started bool // solver reset for this path
	model   map[string]uint64
	memo    map[*smt.Term]uint64
	vars    map[string]*smt.Term
	order   []string
	steps   int64
	budget  int64
	flagged bool // some feasibility query was unknown on this path
	obs     []obsEntry
	reached map[string]bool
	samples int
	imprecise int
	fd      *fdState
	fdFrom  *fdState // snapshot at the branch point (valid once the prefix is consumed)
	setup   bool     // concrete setup phase: no forking
	preempts []string
}

func newPathCtx(i *interpreter, it WorkItem, budget int64) *pathCtx {
	m := it.Model
	if m == nil {
		m = map[string]uint64{}
	}
	return &pathCtx{i: i, prefix: it.Prefix, model: m, memo: map[*smt.Term]uint64{},
		vars: map[string]*smt.Term{}, budget: budget, reached: map[string]bool{}, flagged: it.Flags&1 != 0, fd: newFD(), fdFrom: it.fd}
}

func (p *pathCtx) newVar(tag string, w uint8) *smt.Term { return p.newVarDom(tag, w, nil) }

// newVarDom creates (or returns) the symbolic input tag; dom, when non-nil, is
// its complete finite domain (the caller also assumes the matching constraint).
func (p *pathCtx) newVarDom(tag string, w uint8, dom []uint64) *smt.Term {
	tag = strings.NewReplacer("|", "!", "\\", "!", " ", "_").Replace(tag)
	if v, ok := p.vars[tag]; ok {
		if v.W != w {
			unsupported("symbolic input %q requested with two widths", tag)
		}
		return v
	}
	v := smt.Var(tag, w)
	p.vars[tag] = v
	p.order = append(p.order, tag)
	if dom == nil && w == 0 {
		dom = []uint64{0, 1}
	}
	if dom == nil && w == 8 {
		dom = make([]uint64, 256)
		for k := range dom {
			dom[k] = uint64(k)
		}
	}
	p.fd.declare(tag, dom)
	return v
}

func (p *pathCtx) eval(t *smt.Term) uint64 { return smt.Eval(t, p.model, p.memo) }

func (p *pathCtx) setModel(m map[string]uint64) {
	p.model = m
	p.memo = map[*smt.Term]uint64{}
}

func (p *pathCtx) addPC(t *smt.Term) {
	if t.IsConst() {
		return
	}
	p.pc = append(p.pc, t)
	if p.fdFrom != nil {
		if p.inReplay() {
			return // covered by the snapshot taken at the branch point
		}
		// first constraint past the prefix: continue from the snapshot
		for n, d := range p.fd.dom {
			if _, ok := p.fdFrom.dom[n]; !ok {
				p.fdFrom.declare(n, d)
			}
		}
		p.fd = p.fdFrom
		p.fdFrom = nil
	}
	p.fd.add(t)
}

// childFD is the finite-domain state of a child that takes constraint t.
func (p *pathCtx) childFD(t *smt.Term) *fdState {
	p.settleFD()
	c := p.fd.clone()
	if t != nil {
		c.add(t)
	}
	return c
}

// settleFD switches to the branch-point snapshot when the prefix is consumed.
func (p *pathCtx) settleFD() {
	if p.fdFrom != nil && !p.inReplay() {
		for n, d := range p.fd.dom {
			if _, ok := p.fdFrom.dom[n]; !ok {
				p.fdFrom.declare(n, d)
			}
		}
		p.fd = p.fdFrom
		p.fdFrom = nil
	}
}

// addDomainPC records the constraint that merely restates a declared domain.
func (p *pathCtx) addDomainPC(t *smt.Term) {
	if t.IsConst() {
		return
	}
	p.pc = append(p.pc, t)
}

func (p *pathCtx) inReplay() bool { return p.pos < len(p.prefix) }

// sync makes the solver's assertion stack equal to the path condition.
func (p *pathCtx) sync() *smt.Solver {
	s := p.i.solver
	if s.Restarted {
		p.started = false // the process was replaced: re-assert the whole path condition
	}
	if !p.started {
		s.Reset()
		p.started = true
		p.synced = 0
	}
	for ; p.synced < len(p.pc); p.synced++ {
		s.Assert(p.pc[p.synced])
	}
	return s
}

// query checks pc ∧ extra.  On Sat it returns a model.
func (p *pathCtx) query(extra *smt.Term) (smt.Result, map[string]uint64) {
	return p.queryMode(extra, false)
}

// queryMode: forceSMT is set for property assertions, which are always
// discharged by the SMT solver.
func (p *pathCtx) queryMode(extra *smt.Term, forceSMT bool) (smt.Result, map[string]uint64) {
	p.settleFD()
	if !forceSMT && !p.i.cfg.NoFD {
		if sat, wit, ok := p.fd.feasible(extra); ok {
			st := &p.i.stats
			p.i.fdTick++
			every := p.i.cfg.CrossCheckFD
			if st.FDCrossChecked > 200 {
				every *= 25 // a sample is enough: each cross-check re-asserts the whole path condition
			}
			if every > 0 && p.i.fdTick%every == 0 {
				r, m := p.smtQuery(extra)
				st.FDCrossChecked++
				if (r == smt.Sat) != sat && r != smt.Unknown {
					st.FDMismatch++
					return r, m
				}
			}
			if sat {
				st.FDSat++
				m := copyModel(p.model)
				for k, v := range wit {
					m[k] = v
				}
				return smt.Sat, m
			}
			st.FDUnsat++
			return smt.Unsat, nil
		}
	}
	return p.smtQuery(extra)
}

func (p *pathCtx) smtQuery(extra *smt.Term) (smt.Result, map[string]uint64) {
	r, m := p.smtQueryOn(extra)
	if r == smt.Unknown {
		// the primary solver gave up: ask the fallback solvers with the whole path condition
		for _, name := range p.i.cfg.Fallback {
			fs := p.i.fallbackSolver(name)
			if fs == nil {
				continue
			}
			fs.Reset()
			for _, c := range p.pc {
				fs.Assert(c)
			}
			fs.Assert(extra)
			r2 := fs.Check()
			p.i.stats.FallbackQueries++
			if r2 == smt.Unknown {
				continue
			}
			var m2 map[string]uint64
			if r2 == smt.Sat {
				var err error
				m2, err = fs.Model()
				if err != nil {
					continue
				}
				for k, v := range p.model {
					if _, ok := m2[k]; !ok {
						m2[k] = v
					}
				}
			}
			p.i.stats.FallbackDecided++
			return r2, m2
		}
	}
	return r, m
}

func (p *pathCtx) smtQueryOn(extra *smt.Term) (smt.Result, map[string]uint64) {
	s := p.sync()
	s.Push()
	s.Assert(extra)
	r := s.Check()
	var m map[string]uint64
	if r == smt.Sat {
		var err error
		m, err = s.Model()
		if err != nil {
			r = smt.Unknown
		} else {
			// complete with variables the solver has not seen
			for k, v := range p.model {
				if _, ok := m[k]; !ok {
					m[k] = v
				}
			}
		}
	}
	s.Pop()
	return r, m
}

func b2u(b bool) uint64 {
	if b {
		return 1
	}
	return 0
}

// decide branches on a symbolic boolean.
func (p *pathCtx) decide(c *smt.Term) bool {
	if c.IsConst() {
		return c.Val != 0
	}
	if p.inReplay() {
		d := p.prefix[p.pos] != 0
		p.pos++
		if d {
			p.addPC(c)
		} else {
			p.addPC(smt.Not(c))
		}
		return d
	}
	st := &p.i.stats
	st.Decisions++
	cur := p.eval(c) != 0
	var other *smt.Term
	if cur {
		other = smt.Not(c)
	} else {
		other = c
	}
	r, m := p.query(other)
	switch r {
	case smt.Sat:
		st.Forks++
		p.i.push(WorkItem{Prefix: appendCopy(p.prefix, b2u(!cur)), Model: m, fd: p.childFD(other)})
	case smt.Unknown:
		st.UnknownFeasibility++
		p.i.push(WorkItem{Prefix: appendCopy(p.prefix, b2u(!cur)), Model: copyModel(p.model), Flags: 1, fd: p.childFD(other)})
	}
	p.prefix = append(p.prefix, b2u(cur))
	p.pos++
	if cur {
		p.addPC(c)
	} else {
		p.addPC(smt.Not(c))
	}
	return cur
}

func appendCopy(a []uint64, v uint64) []uint64 {
	r := make([]uint64, len(a)+1)
	copy(r, a)
	r[len(a)] = v
	return r
}

func copyModel(m map[string]uint64) map[string]uint64 {
	r := make(map[string]uint64, len(m))
	for k, v := range m {
		r[k] = v
	}
	return r
}

const concretizeCap = 300

// concretize forks over every feasible value of t and returns the one of this path.
func (p *pathCtx) concretize(t *smt.Term) uint64 {
	if t.IsConst() {
		return t.Val
	}
	if p.inReplay() {
		v := p.prefix[p.pos]
		p.pos++
		p.addPC(smt.Eq(t, smt.Const(t.W, v)))
		return v
	}
	st := &p.i.stats
	st.Decisions++
	v0 := p.eval(t)
	if !p.i.cfg.NoFD {
		if vals, wits, ok := p.fd.values(t); ok {
			for k, vi := range vals {
				if vi == v0 {
					continue
				}
				st.Forks++
				st.FDSat++
				m := copyModel(p.model)
				for n, v := range wits[k] {
					m[n] = v
				}
				p.i.push(WorkItem{Prefix: appendCopy(p.prefix, vi), Model: m, fd: p.childFD(smt.Eq(t, smt.Const(t.W, vi)))})
			}
			p.prefix = append(p.prefix, v0)
			p.pos++
			p.addPC(smt.Eq(t, smt.Const(t.W, v0)))
			return v0
		}
	}
	s := p.sync()
	s.Push()
	s.Assert(smt.Not(smt.Eq(t, smt.Const(t.W, v0))))
	n := 0
	for {
		r := s.Check()
		if r == smt.Unsat {
			break
		}
		if r == smt.Unknown {
			st.UnknownFeasibility++
			p.flagged = true
			break
		}
		m, err := s.Model()
		if err != nil {
			st.UnknownFeasibility++
			p.flagged = true
			break
		}
		for k, v := range p.model {
			if _, ok := m[k]; !ok {
				m[k] = v
			}
		}
		vi := smt.Eval(t, m, map[*smt.Term]uint64{})
		st.Forks++
		p.i.push(WorkItem{Prefix: appendCopy(p.prefix, vi), Model: m, fd: p.childFD(smt.Eq(t, smt.Const(t.W, vi)))})
		s.Assert(smt.Not(smt.Eq(t, smt.Const(t.W, vi))))
		n++
		if n >= concretizeCap {
			st.ConcretizeOverflow++
			break
		}
	}
	s.Pop()
	p.prefix = append(p.prefix, v0)
	p.pos++
	p.addPC(smt.Eq(t, smt.Const(t.W, v0)))
	return v0
}

// assume restricts the path to c.
func (p *pathCtx) assume(c *smt.Term) {
	if c.IsConst() {
		if c.Val == 0 {
			panic(abortAssume{})
		}
		return
	}
	if p.inReplay() {
		p.addPC(c)
		return
	}
	if p.eval(c) != 0 {
		p.addPC(c)
		return
	}
	r, m := p.query(c)
	switch r {
	case smt.Sat:
		p.addPC(c)
		p.setModel(m)
	case smt.Unsat:
		panic(abortAssume{})
	default:
		panic(abortUnknown{"assume"})
	}
}

// check is an assertion: reports a violation when pc ∧ ¬c is satisfiable and
// continues under c.
func (p *pathCtx) check(c *smt.Term, msg string, site string) {
	st := &p.i.stats
	if p.inReplay() {
		p.addPC(c)
		return
	}
	st.Assertions++
	if c.IsConst() {
		if c.Val == 0 {
			p.violation("assert", msg, site, p.model)
			panic(abortAssume{}) // nothing continues under false
		}
		return
	}
	r, m := p.queryMode(smt.Not(c), true)
	switch r {
	case smt.Sat:
		p.violation("assert", msg, site, m)
	case smt.Unknown:
		st.UnknownAssert++
	}
	// continue under c
	p.assume(c)
}

func (p *pathCtx) violation(kind, msg, site string, model map[string]uint64) {
	v := Violation{Kind: kind, Msg: msg, Site: site, Model: copyModel(model), Prefix: append([]uint64(nil), p.prefix[:p.pos]...),
		Vars: append([]string(nil), p.order...), Widths: map[string]uint8{}, Trace: p.renderObs(model), Preempts: append([]string(nil), p.preempts...)}
	for n, t := range p.vars {
		v.Widths[n] = t.W
	}
	p.i.report(v)
}

type obsEntry struct {
	key string
	v   value
}

// renderObs renders the observations under a model.
func (p *pathCtx) renderObs(model map[string]uint64) []string {
	out := make([]string, len(p.obs))
	memo := map[*smt.Term]uint64{}
	for k, o := range p.obs {
		out[k] = o.key + "=" + describeUnder(o.v, model, memo)
	}
	return out
}

// sampleInputs renders the symbolic inputs of the path under its model.
func (p *pathCtx) sampleInputs() map[string]uint64 {
	r := map[string]uint64{}
	for _, n := range p.order {
		r[n] = p.model[n]
	}
	return r
}

// ---------------------------------------------------------------- scalar helpers

func isSym(v value) bool {
	_, ok := v.(*smt.Term)
	return ok
}

func basicOf(t types.Type) *types.Basic {
	if t == nil {
		return nil
	}
	b, _ := t.Underlying().(*types.Basic)
	return b
}

func widthOfKind(k types.BasicKind) uint8 {
	switch k {
	case types.Bool, types.UntypedBool:
		return 0
	case types.Int8, types.Uint8:
		return 8
	case types.Int16, types.Uint16:
		return 16
	case types.Int32, types.Uint32:
		return 32
	case types.Int, types.Int64, types.Uint, types.Uint64, types.Uintptr, types.UntypedInt:
		return 64
	case types.UntypedRune:
		return 32
	}
	return 255
}

func signedKind(k types.BasicKind) bool {
	switch k {
	case types.Int, types.Int8, types.Int16, types.Int32, types.Int64, types.UntypedInt, types.UntypedRune:
		return true
	}
	return false
}

// toTerm converts a concrete scalar to a constant term (or returns the term).
func toTerm(v value) *smt.Term {
	switch x := v.(type) {
	case *smt.Term:
		return x
	case bool:
		return smt.Bool(x)
	case int:
		return smt.Const(64, uint64(x))
	case int8:
		return smt.Const(8, uint64(x))
	case int16:
		return smt.Const(16, uint64(x))
	case int32:
		return smt.Const(32, uint64(x))
	case int64:
		return smt.Const(64, uint64(x))
	case uint:
		return smt.Const(64, uint64(x))
	case uint8:
		return smt.Const(8, uint64(x))
	case uint16:
		return smt.Const(16, uint64(x))
	case uint32:
		return smt.Const(32, uint64(x))
	case uint64:
		return smt.Const(64, x)
	case uintptr:
		return smt.Const(64, uint64(x))
	}
	unsupported("toTerm(%T)", v)
	return nil
}

// fromConst converts a constant value into the concrete Go value of basic kind k.
func fromConst(k types.BasicKind, v uint64) value {
	switch k {
	case types.Bool, types.UntypedBool:
		return v != 0
	case types.Int, types.UntypedInt:
		return int(v)
	case types.Int8:
		return int8(v)
	case types.Int16:
		return int16(v)
	case types.Int32, types.UntypedRune:
		return int32(v)
	case types.Int64:
		return int64(v)
	case types.Uint:
		return uint(v)
	case types.Uint8:
		return uint8(v)
	case types.Uint16:
		return uint16(v)
	case types.Uint32:
		return uint32(v)
	case types.Uint64:
		return v
	case types.Uintptr:
		return uintptr(v)
	}
	unsupported("fromConst(kind %d)", k)
	return nil
}

// norm turns a constant term back into a concrete value of kind k.
func norm(k types.BasicKind, t *smt.Term) value {
	if t.IsConst() {
		return fromConst(k, t.Val)
	}
	return t
}

func kindOfValue(v value) types.BasicKind {
	switch v.(type) {
	case bool:
		return types.Bool
	case int:
		return types.Int
	case int8:
		return types.Int8
	case int16:
		return types.Int16
	case int32:
		return types.Int32
	case int64:
		return types.Int64
	case uint:
		return types.Uint
	case uint8:
		return types.Uint8
	case uint16:
		return types.Uint16
	case uint32:
		return types.Uint32
	case uint64:
		return types.Uint64
	case uintptr:
		return types.Uintptr
	}
	return types.Invalid
}

// symBinop implements binop when at least one operand is symbolic.
func symBinop(i *interpreter, op token.Token, t types.Type, x, y value) value {
	// strings
	if isStrVal(x) || isStrVal(y) {
		return strBinop(i, op, x, y)
	}
	var k types.BasicKind
	if b := basicOf(t); b != nil {
		k = b.Kind()
	} else if kx := kindOfValue(x); kx != types.Invalid {
		k = kx
	} else if ky := kindOfValue(y); ky != types.Invalid {
		k = ky
	} else {
		unsupported("symbolic binop %s without static type", op)
	}
	if _, ok := x.(float64); ok {
		unsupported("symbolic float arithmetic")
	}
	signed := signedKind(k)
	// shifts: y has its own (unsigned or signed) type
	if op == token.SHL || op == token.SHR {
		a := toTerm(x)
		b := toTerm(y)
		if b.W < a.W {
			b = smt.Zext(b, a.W)
		} else if b.W > a.W {
			// large shift counts saturate: if any high bit set result is 0/sign
			hi := smt.Extract(b, b.W-1, a.W)
			lo := smt.Extract(b, a.W-1, 0)
			b = smt.Ite(smt.Eq(hi, smt.Const(hi.W, 0)), lo, smt.Const(a.W, uint64(a.W)))
		}
		var r *smt.Term
		if op == token.SHL {
			r = smt.Bin(smt.OpShl, a, b)
		} else if signed {
			r = smt.Bin(smt.OpAShr, a, b)
		} else {
			r = smt.Bin(smt.OpLShr, a, b)
		}
		return norm(k, r)
	}
	a := toTerm(x)
	b := toTerm(y)
	if a.W != b.W {
		unsupported("symbolic binop %s width mismatch %d/%d", op, a.W, b.W)
	}
	if a.W == 0 { // booleans: only == and !=
		switch op {
		case token.EQL:
			return norm(types.Bool, smt.Eq(a, b))
		case token.NEQ:
			return norm(types.Bool, smt.Not(smt.Eq(a, b)))
		}
		unsupported("symbolic bool binop %s", op)
	}
	var r *smt.Term
	switch op {
	case token.ADD:
		r = smt.Bin(smt.OpAdd, a, b)
	case token.SUB:
		r = smt.Bin(smt.OpSub, a, b)
	case token.MUL:
		r = smt.Bin(smt.OpMul, a, b)
	case token.QUO, token.REM:
		// division by zero panics in Go
		if i.path.decide(smt.Eq(b, smt.Const(b.W, 0))) {
			panic(runtimeError("integer divide by zero"))
		}
		switch {
		case op == token.QUO && signed:
			r = smt.Bin(smt.OpSDiv, a, b)
		case op == token.QUO:
			r = smt.Bin(smt.OpUDiv, a, b)
		case signed:
			r = smt.Bin(smt.OpSRem, a, b)
		default:
			r = smt.Bin(smt.OpURem, a, b)
		}
	case token.AND:
		r = smt.Bin(smt.OpBAnd, a, b)
	case token.OR:
		r = smt.Bin(smt.OpBOr, a, b)
	case token.XOR:
		r = smt.Bin(smt.OpBXor, a, b)
	case token.AND_NOT:
		r = smt.Bin(smt.OpBAnd, a, smt.BNot(b))
	case token.EQL:
		return norm(types.Bool, smt.Eq(a, b))
	case token.NEQ:
		return norm(types.Bool, smt.Not(smt.Eq(a, b)))
	case token.LSS:
		if signed {
			return norm(types.Bool, smt.Bin(smt.OpSlt, a, b))
		}
		return norm(types.Bool, smt.Bin(smt.OpUlt, a, b))
	case token.LEQ:
		if signed {
			return norm(types.Bool, smt.Bin(smt.OpSle, a, b))
		}
		return norm(types.Bool, smt.Bin(smt.OpUle, a, b))
	case token.GTR:
		if signed {
			return norm(types.Bool, smt.Bin(smt.OpSlt, b, a))
		}
		return norm(types.Bool, smt.Bin(smt.OpUlt, b, a))
	case token.GEQ:
		if signed {
			return norm(types.Bool, smt.Bin(smt.OpSle, b, a))
		}
		return norm(types.Bool, smt.Bin(smt.OpUle, b, a))
	default:
		unsupported("symbolic binop %s", op)
	}
	return norm(k, r)
}

// symConv converts symbolic integer x from t_src to t_dst.
func symConv(i *interpreter, t_dst, t_src types.Type, x *smt.Term) value {
	bs, bd := basicOf(t_src), basicOf(t_dst)
	if bs == nil || bd == nil {
		unsupported("symbolic conversion %s -> %s", t_src, t_dst)
	}
	if bd.Kind() == types.String {
		// integer -> string of one rune
		r := int32(i.path.concretize(x))
		return string(rune(r))
	}
	if bd.Info()&types.IsFloat != 0 || bs.Info()&types.IsFloat != 0 {
		unsupported("symbolic int/float conversion")
	}
	wd := widthOfKind(bd.Kind())
	if wd == 255 || wd == 0 || x.W == 0 {
		unsupported("symbolic conversion %s -> %s", t_src, t_dst)
	}
	var r *smt.Term
	switch {
	case wd == x.W:
		r = x
	case wd < x.W:
		r = smt.Extract(x, wd-1, 0)
	case signedKind(bs.Kind()):
		r = smt.Sext(x, wd)
	default:
		r = smt.Zext(x, wd)
	}
	return norm(bd.Kind(), r)
}

// ---------------------------------------------------------------- equality

// eqTerm returns the comparison x == y at (static or dynamic) type t as a term.
func eqTerm(i *interpreter, t types.Type, x, y value) *smt.Term {
	if isLazy(x) || isLazy(y) {
		x = i.forceIface(i.curFrame(), x)
		y = i.forceIface(i.curFrame(), y)
	}
	// an element of a slice's spare capacity that was never written is the host's nil: the zero interface value
	if x == nil || y == nil {
		if x == nil && y == nil {
			return smt.True
		}
		if _, ok := y.(iface); ok && x == nil {
			x = iface{}
		}
		if _, ok := x.(iface); ok && y == nil {
			y = iface{}
		}
	}
	switch x := x.(type) {
	case *smt.Term:
		return smt.Eq(x, toTerm(y))
	case sstr:
		return strEqTerm(x, y)
	case string:
		if ys, ok := y.(sstr); ok {
			return strEqTerm(ys, x)
		}
		return smt.Bool(x == y.(string))
	case bool, int, int8, int16, int32, int64, uint, uint8, uint16, uint32, uint64, uintptr:
		if yt, ok := y.(*smt.Term); ok {
			return smt.Eq(toTerm(x), yt)
		}
		return smt.Bool(x == y)
	case float32:
		return smt.Bool(x == y.(float32))
	case float64:
		return smt.Bool(x == y.(float64))
	case complex64:
		return smt.Bool(x == y.(complex64))
	case complex128:
		return smt.Bool(x == y.(complex128))
	case *value:
		return smt.Bool(x == y.(*value))
	case *chanModel:
		return smt.Bool(x == y.(*chanModel))
	case structure:
		ys := y.(structure)
		st := t.Underlying().(*types.Struct)
		r := smt.True
		for k, n := 0, st.NumFields(); k < n; k++ {
			f := st.Field(k)
			if f.Name() == "_" {
				continue
			}
			r = smt.And(r, eqTerm(i, f.Type(), x[k], ys[k]))
			if r == smt.False {
				return r
			}
		}
		return r
	case array:
		ya := y.(array)
		et := t.Underlying().(*types.Array).Elem()
		r := smt.True
		for k := range x {
			r = smt.And(r, eqTerm(i, et, x[k], ya[k]))
			if r == smt.False {
				return r
			}
		}
		return r
	case iface:
		yi := y.(iface)
		if !sameType(x.t, yi.t) {
			return smt.False
		}
		if x.t == nil {
			return smt.True
		}
		return eqTerm(i, x.t, x.v, yi.v)
	case rtype:
		yr, ok := y.(rtype)
		if !ok {
			return smt.False
		}
		return smt.Bool(sameType(x.t, yr.t))
	case symElemPtr:
		unsupported("comparison of symbolic element pointers")
	}
	// Since map, func and slice don't support comparison, this
	// case is only reachable if one of x or y is literally nil
	// (handled in eqnil) or via interface{} values.
	panic(runtimeError(fmt.Sprintf("comparing uncomparable type %s", t)))
}

// equals decides x == y on the current path.
func (i *interpreter) decideEq(t types.Type, x, y value) bool {
	c := eqTerm(i, t, x, y)
	if c.IsConst() {
		return c.Val != 0
	}
	return i.path.decide(c)
}

func equalsV(i *interpreter, t types.Type, x, y value) value {
	return norm(types.Bool, eqTerm(i, t, x, y))
}

// asBool decides a possibly symbolic boolean.
func (i *interpreter) asBool(v value) bool {
	switch x := v.(type) {
	case bool:
		return x
	case *smt.Term:
		return i.path.decide(x)
	}
	panic(fmt.Sprintf("asBool(%T)", v))
}

// concInt concretizes an integer value (forking over feasible values).
func (i *interpreter) concInt(v value, signed bool) int64 {
	if t, ok := v.(*smt.Term); ok {
		u := i.path.concretize(t)
		if signed && t.W < 64 {
			sh := 64 - t.W
			return int64(u<<sh) >> sh
		}
		return int64(u)
	}
	return asInt64(v)
}

// runtimeError is a Go runtime panic raised by the interpreter on behalf of the target.
type runtimeError string

func (e runtimeError) Error() string { return "runtime error: " + string(e) }
func (e runtimeError) RuntimeError() {}

// sortedKeys is a tiny helper for deterministic output.
func sortedKeys(m map[string]uint64) []string {
	ks := make([]string, 0, len(m))
	for k := range m {
		ks = append(ks, k)
	}
	sort.Strings(ks)
	return ks
}
