// Package smt is a small bit-vector term language with constant folding,
// an SMT-LIB2 printer and a concrete evaluator.
//
// Sorts: Bool (W==0) and (_ BitVec W) for 1<=W<=64.
package smt

import (
	"fmt"
	"strings"
)

type Op uint8

const (
	OpVar Op = iota
	OpConst
	OpNot
	OpAnd
	OpOr
	OpIte
	OpEq
	OpAdd
	OpSub
	OpMul
	OpUDiv
	OpSDiv
	OpURem
	OpSRem
	OpBAnd
	OpBOr
	OpBXor
	OpBNot
	OpNeg
	OpShl
	OpLShr
	OpAShr
	OpUlt
	OpUle
	OpSlt
	OpSle
	OpExtract // Val = hi<<8|lo
	OpZext    // to width W
	OpSext
	OpConcat
)

var opName = map[Op]string{
	OpNot: "not", OpAnd: "and", OpOr: "or", OpIte: "ite", OpEq: "=",
	OpAdd: "bvadd", OpSub: "bvsub", OpMul: "bvmul", OpUDiv: "bvudiv", OpSDiv: "bvsdiv",
	OpURem: "bvurem", OpSRem: "bvsrem", OpBAnd: "bvand", OpBOr: "bvor", OpBXor: "bvxor",
	OpBNot: "bvnot", OpNeg: "bvneg", OpShl: "bvshl", OpLShr: "bvlshr", OpAShr: "bvashr",
	OpUlt: "bvult", OpUle: "bvule", OpSlt: "bvslt", OpSle: "bvsle", OpConcat: "concat",
}

// Term is an immutable node. Terms are not hash-consed; sharing is by pointer.
type Term struct {
	Op   Op
	W    uint8 // 0 = Bool
	Val  uint64
	Name string
	Args []*Term
}

func (t *Term) IsBool() bool  { return t.W == 0 }
func (t *Term) IsConst() bool { return t.Op == OpConst }

func mask(w uint8) uint64 {
	if w >= 64 {
		return ^uint64(0)
	}
	return (uint64(1) << w) - 1
}

var (
	True  = &Term{Op: OpConst, W: 0, Val: 1}
	False = &Term{Op: OpConst, W: 0, Val: 0}
)

func Bool(b bool) *Term {
	if b {
		return True
	}
	return False
}

func Const(w uint8, v uint64) *Term {
	if w == 0 {
		return Bool(v != 0)
	}
	return &Term{Op: OpConst, W: w, Val: v & mask(w)}
}

func Var(name string, w uint8) *Term { return &Term{Op: OpVar, W: w, Name: name} }

func sext64(v uint64, w uint8) int64 {
	if w >= 64 {
		return int64(v)
	}
	sh := 64 - w
	return int64(v<<sh) >> sh
}

func Not(a *Term) *Term {
	if a.Op == OpConst {
		return Bool(a.Val == 0)
	}
	if a.Op == OpNot {
		return a.Args[0]
	}
	return &Term{Op: OpNot, Args: []*Term{a}}
}

func And(a, b *Term) *Term {
	if a.Op == OpConst {
		if a.Val == 0 {
			return False
		}
		return b
	}
	if b.Op == OpConst {
		if b.Val == 0 {
			return False
		}
		return a
	}
	if a == b {
		return a
	}
	return &Term{Op: OpAnd, Args: []*Term{a, b}}
}

func Or(a, b *Term) *Term {
	if a.Op == OpConst {
		if a.Val != 0 {
			return True
		}
		return b
	}
	if b.Op == OpConst {
		if b.Val != 0 {
			return True
		}
		return a
	}
	if a == b {
		return a
	}
	return &Term{Op: OpOr, Args: []*Term{a, b}}
}

func Ite(c, a, b *Term) *Term {
	if c.Op == OpConst {
		if c.Val != 0 {
			return a
		}
		return b
	}
	if a == b {
		return a
	}
	if a.Op == OpConst && b.Op == OpConst && a.W == b.W && a.Val == b.Val {
		return a
	}
	if a.W == 0 && a.Op == OpConst && b.Op == OpConst {
		if a.Val != 0 { // ite(c,true,false)
			return c
		}
		return Not(c)
	}
	return &Term{Op: OpIte, W: a.W, Args: []*Term{c, a, b}}
}

func Eq(a, b *Term) *Term {
	if a.W != b.W {
		panic(fmt.Sprintf("smt.Eq: width mismatch %d vs %d", a.W, b.W))
	}
	if a == b {
		return True
	}
	if a.Op == OpConst && b.Op == OpConst {
		return Bool(a.Val == b.Val)
	}
	if a.W == 0 {
		if a.Op == OpConst {
			if a.Val != 0 {
				return b
			}
			return Not(b)
		}
		if b.Op == OpConst {
			if b.Val != 0 {
				return a
			}
			return Not(a)
		}
	}
	// (ite c k1 k2) == k  with constants folds
	if b.Op == OpConst && a.Op == OpIte && a.Args[1].Op == OpConst && a.Args[2].Op == OpConst {
		t1 := a.Args[1].Val == b.Val
		t2 := a.Args[2].Val == b.Val
		switch {
		case t1 && t2:
			return True
		case t1:
			return a.Args[0]
		case t2:
			return Not(a.Args[0])
		default:
			return False
		}
	}
	if a.Op == OpConst && b.Op == OpIte {
		return Eq(b, a)
	}
	// zext(x) == const
	if b.Op == OpConst && a.Op == OpZext {
		in := a.Args[0]
		if b.Val&^mask(in.W) != 0 {
			return False
		}
		return Eq(in, Const(in.W, b.Val))
	}
	if a.Op == OpConst && b.Op == OpZext {
		return Eq(b, a)
	}
	return &Term{Op: OpEq, Args: []*Term{a, b}}
}

func Bin(op Op, a, b *Term) *Term {
	if a.W != b.W {
		panic(fmt.Sprintf("smt.Bin(%s): width mismatch %d vs %d", opName[op], a.W, b.W))
	}
	w := a.W
	cmp := op == OpUlt || op == OpUle || op == OpSlt || op == OpSle
	if a.Op == OpConst && b.Op == OpConst {
		v, ok := evalBin(op, w, a.Val, b.Val)
		if ok {
			if cmp {
				return Bool(v != 0)
			}
			return Const(w, v)
		}
	}
	// a few cheap identities
	switch op {
	case OpAdd:
		if a.Op == OpConst && a.Val == 0 {
			return b
		}
		if b.Op == OpConst && b.Val == 0 {
			return a
		}
	case OpSub:
		if b.Op == OpConst && b.Val == 0 {
			return a
		}
	case OpBAnd:
		if b.Op == OpConst && b.Val == mask(w) {
			return a
		}
		if a.Op == OpConst && a.Val == mask(w) {
			return b
		}
		if (b.Op == OpConst && b.Val == 0) || (a.Op == OpConst && a.Val == 0) {
			return Const(w, 0)
		}
	case OpBOr, OpBXor:
		if b.Op == OpConst && b.Val == 0 {
			return a
		}
		if a.Op == OpConst && a.Val == 0 {
			return b
		}
	case OpShl, OpLShr, OpAShr:
		if b.Op == OpConst && b.Val == 0 {
			return a
		}
	case OpMul:
		if b.Op == OpConst && b.Val == 1 {
			return a
		}
		if a.Op == OpConst && a.Val == 1 {
			return b
		}
	}
	// comparisons of zero-extended small values with constants stay small
	if cmp && b.Op == OpConst && a.Op == OpZext && (op == OpUlt || op == OpUle) {
		in := a.Args[0]
		if b.Val&^mask(in.W) == 0 {
			return Bin(op, in, Const(in.W, b.Val))
		}
		return True
	}
	if cmp && a.Op == OpConst && b.Op == OpZext && (op == OpUlt || op == OpUle) {
		in := b.Args[0]
		if a.Val&^mask(in.W) == 0 {
			return Bin(op, Const(in.W, a.Val), in)
		}
		return False
	}
	t := &Term{Op: op, W: w, Args: []*Term{a, b}}
	if cmp {
		t.W = 0
	}
	return t
}

func evalBin(op Op, w uint8, x, y uint64) (uint64, bool) {
	m := mask(w)
	x &= m
	y &= m
	b2u := func(b bool) uint64 {
		if b {
			return 1
		}
		return 0
	}
	switch op {
	case OpAdd:
		return (x + y) & m, true
	case OpSub:
		return (x - y) & m, true
	case OpMul:
		return (x * y) & m, true
	case OpUDiv:
		if y == 0 {
			return m, true // SMT-LIB semantics
		}
		return (x / y) & m, true
	case OpURem:
		if y == 0 {
			return x, true
		}
		return (x % y) & m, true
	case OpSDiv:
		sx, sy := sext64(x, w), sext64(y, w)
		if sy == 0 {
			if sx >= 0 {
				return m, true
			}
			return 1, true
		}
		if sy == -1 {
			return uint64(-sx) & m, true
		}
		return uint64(sx/sy) & m, true
	case OpSRem:
		sx, sy := sext64(x, w), sext64(y, w)
		if sy == 0 {
			return x, true
		}
		if sy == -1 {
			return 0, true
		}
		return uint64(sx%sy) & m, true
	case OpBAnd:
		return x & y, true
	case OpBOr:
		return x | y, true
	case OpBXor:
		return x ^ y, true
	case OpShl:
		if y >= uint64(w) {
			return 0, true
		}
		return (x << y) & m, true
	case OpLShr:
		if y >= uint64(w) {
			return 0, true
		}
		return x >> y, true
	case OpAShr:
		sx := sext64(x, w)
		if y >= uint64(w) {
			if sx < 0 {
				return m, true
			}
			return 0, true
		}
		return uint64(sx>>y) & m, true
	case OpUlt:
		return b2u(x < y), true
	case OpUle:
		return b2u(x <= y), true
	case OpSlt:
		return b2u(sext64(x, w) < sext64(y, w)), true
	case OpSle:
		return b2u(sext64(x, w) <= sext64(y, w)), true
	}
	return 0, false
}

func BNot(a *Term) *Term {
	if a.Op == OpConst {
		return Const(a.W, ^a.Val)
	}
	return &Term{Op: OpBNot, W: a.W, Args: []*Term{a}}
}

func Neg(a *Term) *Term {
	if a.Op == OpConst {
		return Const(a.W, -a.Val)
	}
	return &Term{Op: OpNeg, W: a.W, Args: []*Term{a}}
}

func Extract(a *Term, hi, lo uint8) *Term {
	w := hi - lo + 1
	if lo == 0 && w == a.W {
		return a
	}
	if a.Op == OpConst {
		return Const(w, a.Val>>lo)
	}
	if a.Op == OpZext || a.Op == OpSext {
		in := a.Args[0]
		if lo == 0 && w <= in.W {
			return Extract(in, hi, 0)
		}
	}
	return &Term{Op: OpExtract, W: w, Val: uint64(hi)<<8 | uint64(lo), Args: []*Term{a}}
}

func Zext(a *Term, w uint8) *Term {
	if w == a.W {
		return a
	}
	if w < a.W {
		return Extract(a, w-1, 0)
	}
	if a.Op == OpConst {
		return Const(w, a.Val)
	}
	if a.Op == OpZext {
		return Zext(a.Args[0], w)
	}
	return &Term{Op: OpZext, W: w, Args: []*Term{a}}
}

func Sext(a *Term, w uint8) *Term {
	if w == a.W {
		return a
	}
	if w < a.W {
		return Extract(a, w-1, 0)
	}
	if a.Op == OpConst {
		return Const(w, uint64(sext64(a.Val, a.W)))
	}
	return &Term{Op: OpSext, W: w, Args: []*Term{a}}
}

func Concat(hi, lo *Term) *Term {
	w := hi.W + lo.W
	if hi.Op == OpConst && lo.Op == OpConst {
		return Const(w, hi.Val<<lo.W|lo.Val)
	}
	return &Term{Op: OpConcat, W: w, Args: []*Term{hi, lo}}
}

// Vars appends the distinct variables of t to the map.
func Vars(t *Term, into map[string]uint8, seen map[*Term]bool) {
	if seen[t] {
		return
	}
	seen[t] = true
	if t.Op == OpVar {
		into[t.Name] = t.W
		return
	}
	for _, a := range t.Args {
		Vars(a, into, seen)
	}
}

// Size returns the number of nodes of t counted as a tree, capped at limit.
func Size(t *Term, limit int) int {
	n := 1
	for _, a := range t.Args {
		n += Size(a, limit-n)
		if n >= limit {
			return limit
		}
	}
	return n
}

// EvalTree evaluates a small term without a memo table.
func EvalTree(t *Term, model map[string]uint64) uint64 {
	switch t.Op {
	case OpConst:
		return t.Val
	case OpVar:
		r := model[t.Name] & mask(maxw(t.W))
		if t.W == 0 && r != 0 {
			r = 1
		}
		return r
	case OpNot:
		return 1 - EvalTree(t.Args[0], model)
	case OpAnd:
		if EvalTree(t.Args[0], model) != 0 && EvalTree(t.Args[1], model) != 0 {
			return 1
		}
		return 0
	case OpOr:
		if EvalTree(t.Args[0], model) != 0 || EvalTree(t.Args[1], model) != 0 {
			return 1
		}
		return 0
	case OpIte:
		if EvalTree(t.Args[0], model) != 0 {
			return EvalTree(t.Args[1], model)
		}
		return EvalTree(t.Args[2], model)
	case OpEq:
		if EvalTree(t.Args[0], model) == EvalTree(t.Args[1], model) {
			return 1
		}
		return 0
	case OpBNot:
		return ^EvalTree(t.Args[0], model) & mask(t.W)
	case OpNeg:
		return -EvalTree(t.Args[0], model) & mask(t.W)
	case OpExtract:
		lo := uint8(t.Val & 0xff)
		return (EvalTree(t.Args[0], model) >> lo) & mask(t.W)
	case OpZext:
		return EvalTree(t.Args[0], model)
	case OpSext:
		return uint64(sext64(EvalTree(t.Args[0], model), t.Args[0].W)) & mask(t.W)
	case OpConcat:
		return EvalTree(t.Args[0], model)<<t.Args[1].W | EvalTree(t.Args[1], model)
	}
	v, ok := evalBin(t.Op, t.Args[0].W, EvalTree(t.Args[0], model), EvalTree(t.Args[1], model))
	if !ok {
		panic("smt.EvalTree: unknown op")
	}
	return v
}

// Eval evaluates t under the model (missing variables are 0).
func Eval(t *Term, model map[string]uint64, memo map[*Term]uint64) uint64 {
	if t.Op == OpConst {
		return t.Val
	}
	if v, ok := memo[t]; ok {
		return v
	}
	var r uint64
	switch t.Op {
	case OpVar:
		r = model[t.Name] & mask(maxw(t.W))
		if t.W == 0 && r != 0 {
			r = 1
		}
	case OpNot:
		r = 1 - Eval(t.Args[0], model, memo)
	case OpAnd:
		if Eval(t.Args[0], model, memo) != 0 && Eval(t.Args[1], model, memo) != 0 {
			r = 1
		}
	case OpOr:
		if Eval(t.Args[0], model, memo) != 0 || Eval(t.Args[1], model, memo) != 0 {
			r = 1
		}
	case OpIte:
		if Eval(t.Args[0], model, memo) != 0 {
			r = Eval(t.Args[1], model, memo)
		} else {
			r = Eval(t.Args[2], model, memo)
		}
	case OpEq:
		if Eval(t.Args[0], model, memo) == Eval(t.Args[1], model, memo) {
			r = 1
		}
	case OpBNot:
		r = ^Eval(t.Args[0], model, memo) & mask(t.W)
	case OpNeg:
		r = -Eval(t.Args[0], model, memo) & mask(t.W)
	case OpExtract:
		lo := uint8(t.Val & 0xff)
		r = (Eval(t.Args[0], model, memo) >> lo) & mask(t.W)
	case OpZext:
		r = Eval(t.Args[0], model, memo)
	case OpSext:
		r = uint64(sext64(Eval(t.Args[0], model, memo), t.Args[0].W)) & mask(t.W)
	case OpConcat:
		r = Eval(t.Args[0], model, memo)<<t.Args[1].W | Eval(t.Args[1], model, memo)
	default:
		x := Eval(t.Args[0], model, memo)
		y := Eval(t.Args[1], model, memo)
		v, ok := evalBin(t.Op, t.Args[0].W, x, y)
		if !ok {
			panic(fmt.Sprintf("smt.Eval: op %d", t.Op))
		}
		r = v
	}
	memo[t] = r
	return r
}

func maxw(w uint8) uint8 {
	if w == 0 {
		return 1
	}
	return w
}

// ---------------------------------------------------------------- printing

func sortStr(w uint8) string {
	if w == 0 {
		return "Bool"
	}
	return fmt.Sprintf("(_ BitVec %d)", w)
}

func QuoteName(n string) string {
	n = strings.NewReplacer("|", "!", "\\", "!").Replace(n)
	return "|" + n + "|"
}

// Printer renders terms with let-sharing of multiply referenced nodes.
type printer struct {
	refs  map[*Term]int
	names map[*Term]string
	sb    *strings.Builder
	lets  int
}

func countRefs(t *Term, refs map[*Term]int) {
	refs[t]++
	if refs[t] > 1 {
		return
	}
	for _, a := range t.Args {
		countRefs(a, refs)
	}
}

// String renders t as an SMT-LIB2 expression.
func (t *Term) String() string {
	p := &printer{refs: map[*Term]int{}, names: map[*Term]string{}, sb: &strings.Builder{}}
	countRefs(t, p.refs)
	// collect shared non-leaf nodes in post-order
	var order []*Term
	seen := map[*Term]bool{}
	var walk func(x *Term)
	walk = func(x *Term) {
		if seen[x] {
			return
		}
		seen[x] = true
		for _, a := range x.Args {
			walk(a)
		}
		if p.refs[x] > 1 && len(x.Args) > 0 {
			order = append(order, x)
		}
	}
	walk(t)
	for i, x := range order {
		p.sb.WriteString("(let ((")
		name := fmt.Sprintf("s!%d", i)
		p.sb.WriteString(name)
		p.sb.WriteByte(' ')
		p.emit(x, true)
		p.sb.WriteString(")) ")
		p.names[x] = name
	}
	p.emit(t, false)
	for range order {
		p.sb.WriteByte(')')
	}
	return p.sb.String()
}

func (p *printer) emit(t *Term, def bool) {
	if !def {
		if n, ok := p.names[t]; ok {
			p.sb.WriteString(n)
			return
		}
	}
	switch t.Op {
	case OpVar:
		p.sb.WriteString(QuoteName(t.Name))
	case OpConst:
		if t.W == 0 {
			if t.Val != 0 {
				p.sb.WriteString("true")
			} else {
				p.sb.WriteString("false")
			}
		} else if t.W%4 == 0 {
			fmt.Fprintf(p.sb, "#x%0*x", int(t.W/4), t.Val)
		} else {
			fmt.Fprintf(p.sb, "#b%0*b", int(t.W), t.Val)
		}
	case OpExtract:
		fmt.Fprintf(p.sb, "((_ extract %d %d) ", t.Val>>8, t.Val&0xff)
		p.emit(t.Args[0], false)
		p.sb.WriteByte(')')
	case OpZext:
		fmt.Fprintf(p.sb, "((_ zero_extend %d) ", t.W-t.Args[0].W)
		p.emit(t.Args[0], false)
		p.sb.WriteByte(')')
	case OpSext:
		fmt.Fprintf(p.sb, "((_ sign_extend %d) ", t.W-t.Args[0].W)
		p.emit(t.Args[0], false)
		p.sb.WriteByte(')')
	default:
		p.sb.WriteByte('(')
		p.sb.WriteString(opName[t.Op])
		for _, a := range t.Args {
			p.sb.WriteByte(' ')
			p.emit(a, false)
		}
		p.sb.WriteByte(')')
	}
}

func Decl(name string, w uint8) string {
	return fmt.Sprintf("(declare-const %s %s)", QuoteName(name), sortStr(w))
}
