package smt

import (
	"bufio"
	"fmt"
	"io"
	"os/exec"
	"strconv"
	"strings"
	"time"
)

type Result int

const (
	Unsat Result = iota
	Sat
	Unknown
)

func (r Result) String() string { return [...]string{"unsat", "sat", "unknown"}[r] }

// Solver is one long-lived solver process spoken to over a pipe.
type Solver struct {
	Name     string
	cmd      *exec.Cmd
	in       io.WriteCloser
	out      *bufio.Reader
	declared map[string]uint8
	Queries  [3]int // by Result
	Time     time.Duration
	Errors   int
	LastError string
	Trace    io.Writer
	argv     []string
	timeout  time.Duration
	Killed   int
	Restarted bool // set when the process was replaced; cleared by Reset
	depth    int
	declLog  [][]string // declared names per push level
}

// NewSolver starts a solver. kind: "z3", "z3-new", "cvc5".
func NewSolver(kind string, timeoutMs int) (*Solver, error) {
	var argv []string
	switch kind {
	case "z3":
		argv = []string{"z3", "-in", fmt.Sprintf("-t:%d", timeoutMs)}
	case "z3-new":
		argv = []string{"z3-new", "-in", fmt.Sprintf("-t:%d", timeoutMs)}
	case "cvc5":
		argv = []string{"cvc5", "--incremental", "--lang=smt2", "--produce-models", fmt.Sprintf("--tlimit-per=%d", timeoutMs)}
	default:
		return nil, fmt.Errorf("unknown solver %q", kind)
	}
	s := &Solver{Name: kind, argv: argv, timeout: time.Duration(timeoutMs)*time.Millisecond + 3*time.Second}
	if err := s.start(); err != nil {
		return nil, err
	}
	return s, nil
}

func (s *Solver) start() error {
	s.cmd = exec.Command(s.argv[0], s.argv[1:]...)
	in, err := s.cmd.StdinPipe()
	if err != nil {
		return err
	}
	out, err := s.cmd.StdoutPipe()
	if err != nil {
		return err
	}
	s.cmd.Stderr = nil
	if err := s.cmd.Start(); err != nil {
		return err
	}
	s.in = in
	s.out = bufio.NewReaderSize(out, 1<<16)
	s.declared = map[string]uint8{}
	s.depth = 0
	s.declLog = [][]string{nil}
	if s.Name == "cvc5" {
		s.send("(set-logic QF_BV)")
	}
	s.send("(set-option :produce-models true)")
	return nil
}

func (s *Solver) Close() {
	if s.cmd != nil {
		s.in.Close()
		s.cmd.Process.Kill()
		s.cmd.Wait()
		s.cmd = nil
	}
}

func (s *Solver) send(line string) {
	if s.Trace != nil {
		fmt.Fprintln(s.Trace, line)
	}
	io.WriteString(s.in, line)
	io.WriteString(s.in, "\n")
}

// Reset drops all assertions and declarations.
func (s *Solver) Reset() {
	s.Restarted = false
	if s.Name == "cvc5" {
		// cvc5 1.0 supports (reset) but loses options; restart options
		s.send("(reset)")
		s.send("(set-logic QF_BV)")
		s.send("(set-option :produce-models true)")
	} else {
		s.send("(reset)")
		s.send("(set-option :produce-models true)")
	}
	s.declared = map[string]uint8{}
	s.depth = 0
	s.declLog = [][]string{nil}
}

func (s *Solver) declare(t *Term) {
	vs := map[string]uint8{}
	Vars(t, vs, map[*Term]bool{})
	for n, w := range vs {
		if _, ok := s.declared[n]; !ok {
			s.declared[n] = w
			s.declLog[s.depth] = append(s.declLog[s.depth], n)
			s.send(Decl(n, w))
		}
	}
}

func (s *Solver) Assert(t *Term) {
	s.declare(t)
	s.send("(assert " + t.String() + ")")
}

func (s *Solver) Push() {
	s.send("(push 1)")
	s.depth++
	s.declLog = append(s.declLog, nil)
}

func (s *Solver) Pop() {
	s.send("(pop 1)")
	for _, n := range s.declLog[s.depth] {
		delete(s.declared, n)
	}
	s.declLog = s.declLog[:s.depth]
	s.depth--
}

func (s *Solver) readLine() (string, error) {
	l, err := s.out.ReadString('\n')
	return strings.TrimSpace(l), err
}

// Check runs (check-sat). Any "(error" output makes the result Unknown.
func (s *Solver) Check() Result {
	t0 := time.Now()
	s.send("(check-sat)")
	r := Unknown
	sawError := false
	// hard watchdog: the solver's own soft timeout is not always honoured
	proc := s.cmd.Process
	wd := time.AfterFunc(s.timeout, func() { proc.Kill() })
	defer wd.Stop()
	for {
		l, err := s.readLine()
		if err != nil {
			s.Errors++
			// solver died or was killed by the watchdog: restart so that later
			// queries work; this one is unknown.  The caller must Reset and re-assert.
			s.Killed++
			s.Close()
			s.start()
			s.Restarted = true
			sawError = true
			break
		}
		if l == "" {
			continue
		}
		switch {
		case l == "sat":
			r = Sat
		case l == "unsat":
			r = Unsat
		case l == "unknown" || l == "timeout":
			r = Unknown
		case strings.HasPrefix(l, "(error"):
			s.Errors++
			s.LastError = l
			sawError = true
			// an error line precedes the verdict; keep reading until the verdict arrives
			continue
		default:
			continue
		}
		break
	}
	if sawError {
		r = Unknown
	}
	s.Queries[r]++
	s.Time += time.Since(t0)
	return r
}

// Model returns values for all declared variables after a Sat answer.
func (s *Solver) Model() (map[string]uint64, error) {
	m := map[string]uint64{}
	if len(s.declared) == 0 {
		return m, nil
	}
	var sb strings.Builder
	sb.WriteString("(get-value (")
	for n := range s.declared {
		sb.WriteString(QuoteName(n))
		sb.WriteByte(' ')
	}
	sb.WriteString("))")
	s.send(sb.String())
	txt, err := s.readSexp()
	if err != nil {
		return nil, err
	}
	if strings.HasPrefix(txt, "(error") {
		s.Errors++
		return nil, fmt.Errorf("solver: %s", txt)
	}
	// parse ((|a| #x00) (b true) (c (_ bv3 8)) ...)
	i := 1 // skip the outer '('
	for i < len(txt) {
		for i < len(txt) && txt[i] != '(' {
			i++
		}
		if i >= len(txt) {
			break
		}
		i++ // entry '('
		var name string
		if txt[i] == '|' {
			k := strings.IndexByte(txt[i+1:], '|')
			name = txt[i+1 : i+1+k]
			i += k + 2
		} else {
			e := i
			for e < len(txt) && txt[e] != ' ' && txt[e] != '\n' {
				e++
			}
			name = txt[i:e]
			i = e
		}
		for i < len(txt) && (txt[i] == ' ' || txt[i] == '\n') {
			i++
		}
		var v uint64
		if txt[i] == '(' {
			// (_ bv123 8)
			var n uint64
			fmt.Sscanf(txt[i:], "(_ bv%d", &n)
			v = n
			for i < len(txt) && txt[i] != ')' {
				i++
			}
			i++
		} else {
			e := i
			for e < len(txt) && txt[e] != ')' && txt[e] != ' ' && txt[e] != '\n' {
				e++
			}
			tok := txt[i:e]
			switch {
			case tok == "true":
				v = 1
			case tok == "false":
				v = 0
			case strings.HasPrefix(tok, "#x"):
				v, _ = strconv.ParseUint(tok[2:], 16, 64)
			case strings.HasPrefix(tok, "#b"):
				v, _ = strconv.ParseUint(tok[2:], 2, 64)
			}
			i = e
		}
		for i < len(txt) && txt[i] != ')' {
			i++
		}
		i++ // entry ')'
		m[name] = v
	}
	return m, nil
}

func (s *Solver) readSexp() (string, error) {
	var sb strings.Builder
	depth := 0
	started := false
	inBar := false
	for {
		c, err := s.out.ReadByte()
		if err != nil {
			return sb.String(), err
		}
		sb.WriteByte(c)
		if c == '|' {
			inBar = !inBar
		}
		if inBar {
			continue
		}
		if c == '(' {
			depth++
			started = true
		} else if c == ')' {
			depth--
		}
		if started && depth == 0 {
			return strings.TrimSpace(sb.String()), nil
		}
	}
}
