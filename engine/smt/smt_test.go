package smt

import "testing"

func TestBasic(t *testing.T) {
	for _, k := range []string{"z3", "z3-new", "cvc5"} {
		s, err := NewSolver(k, 10000)
		if err != nil {
			t.Fatal(err)
		}
		x := Var("a/0", 64)
		y := Var("b", 8)
		c := And(Bin(OpSlt, x, Const(64, 5)), Eq(Zext(y, 64), Bin(OpAdd, x, Const(64, 3))))
		s.Assert(c)
		if r := s.Check(); r != Sat {
			t.Fatalf("%s: %v %s", k, r, s.LastError)
		}
		m, err := s.Model()
		if err != nil {
			t.Fatal(err)
		}
		if Eval(c, m, map[*Term]uint64{}) != 1 {
			t.Fatalf("%s: model does not satisfy: %v", k, m)
		}
		s.Push()
		s.Assert(Bin(OpSlt, Const(64, 300), x))
		if r := s.Check(); r != Unsat {
			t.Fatalf("%s: %v", k, r)
		}
		s.Pop()
		if r := s.Check(); r != Sat {
			t.Fatalf("%s: %v", k, r)
		}
		s.Reset()
		s.Assert(Eq(Var("q", 0), True))
		if r := s.Check(); r != Sat {
			t.Fatalf("%s: %v", k, r)
		}
		m, _ = s.Model()
		if m["q"] != 1 {
			t.Fatalf("%s: %v", k, m)
		}
		s.Close()
	}
}
