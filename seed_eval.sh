#!/bin/bash
# usage: seed_eval.sh CNN [tier] [outdir]  : confirm a seeded change in a scratch worktree, then run ./check CNN against /repo with it applied
set -u
ID=$1; TIER=${2:-quick}; OUT=${3:-/tmp/mut/out_$ID}
export GOFLAGS=-mod=mod GOPROXY=off GOSUMDB=off GOTOOLCHAIN=local
WT=/tmp/mut/verify_$ID
rm -rf $WT; git -C /repo worktree prune; git -C /repo worktree add -q --detach $WT HEAD || exit 2
cleanup() { git -C /repo worktree remove --force $WT 2>/dev/null; }
trap cleanup EXIT
# copy demonstration files (everything except patch.diff / notes.md) preserving relative dir if given in demo_path.txt
DEMOS=$(ls $OUT | grep -v -E '^(patch.diff|notes.md|meta.json|demo_path.txt)$')
for f in $DEMOS; do
  dest=$WT/$f
  if [ -f $OUT/demo_path.txt ]; then dest=$WT/$(cat $OUT/demo_path.txt)/$f; fi
  if [ -d $OUT/$f ]; then mkdir -p $dest; cp -r $OUT/$f/. $dest/; else mkdir -p $(dirname $dest); cp -r $OUT/$f $dest; fi
done
# run only the demonstration's own tests (the root package has an environment-dependent failing test)
NAMES=$(grep -rhoE "^func (Test[A-Za-z0-9_]+)" $OUT --include=*_test.go | sed 's/func //' | sort -u | paste -sd'|')
run_demo() { (cd $WT && timeout 900 go test -vet=off -count=1 -run "^(${NAMES})\$" ./... 2>&1 | grep -E "^(--- FAIL|FAIL|ok|panic)" | grep -v "no test files" | head -12); }
echo "== demo WITHOUT the change (must pass): tests $NAMES"; run_demo | tee /tmp/mut/demo_before_$ID.log | grep -E "FAIL|panic" | head -5; grep -q -E "FAIL|panic" /tmp/mut/demo_before_$ID.log && echo "DEMO-BEFORE: FAILS (unexpected)" || echo "DEMO-BEFORE: passes"
echo "== apply patch"; (cd $WT && git apply $OUT/patch.diff) || { echo "PATCH DOES NOT APPLY"; exit 3; }
echo "== build + baseline WITH the change"; /verif/run_baseline.sh $WT | tail -3
echo "== demo WITH the change (must fail)"; run_demo | tee /tmp/mut/demo_after_$ID.log | grep -E "^--- FAIL" | head -4; grep -q -E "FAIL|panic" /tmp/mut/demo_after_$ID.log && echo "DEMO-AFTER: fails (as required)" || echo "DEMO-AFTER: PASSES (unexpected)"
echo "== check $ID $TIER against /repo with the change"
git -C /repo apply $OUT/patch.diff || { echo "cannot apply to /repo"; exit 4; }
(cd /verif && timeout 3000 ./check $ID $TIER > /tmp/mut/check_$ID.log 2>&1; echo "check rc=$?" >> /tmp/mut/check_$ID.log)
git -C /repo checkout -- .
git -C /repo status --short | head -3
grep -E "^(VIOLATION|KNOWN-FINDING|  signature|check rc)" /tmp/mut/check_$ID.log | cut -c1-250 | head -12
tail -2 /tmp/mut/check_$ID.log | cut -c1-300
